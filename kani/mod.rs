//! Kani harnesses for wirm (included by the cfg hook in src/lib.rs).
#[kani::proof]
fn k0_smoke() {
    let x: u8 = kani::any();
    assert!(x as u32 <= 255);
}
#[kani::proof]
fn k0_canary_must_fail() {
    let x: u8 = kani::any();
    assert!(x < 255);
}
