//! Kani harnesses for wirm (included by the cfg hook in src/lib.rs: `#[cfg(all(kani, wirm_verif))]`).
//! Every harness is loop-free over a fully symbolic finite domain: a successful run is a complete proof
//! for that domain, a failed one comes with a concrete counterexample (concrete playback).
#![allow(unused_imports, dead_code)]
use crate as W;
#[path = "/verif/kani/bodies.rs"]
mod bodies;
use bodies::Src;

struct KaniSrc;
impl Src for KaniSrc {
    fn u8(&mut self) -> u8 { kani::any() }
    fn u32(&mut self) -> u32 { kani::any() }
    fn u64(&mut self) -> u64 { kani::any() }
    fn bool(&mut self) -> bool { kani::any() }
    fn bytes16(&mut self) -> [u8; 16] { kani::any() }
}
macro_rules! harness {
    ($name:ident) => {
        #[kani::proof]
        fn $name() {
            let mut s = KaniSrc;
            if let Some((ok, _)) = bodies::$name(&mut s) {
                assert!(ok);
            }
        }
    };
}
// vacuity guards
#[kani::proof]
fn k0_smoke() { let x: u8 = kani::any(); assert!(x as u32 <= 255); }
#[kani::proof]
fn k0_canary_must_fail() { let x: u8 = kani::any(); assert!(x < 255); }

harness!(k1_valtype_roundtrip);
harness!(k1_valtype_roundtrip_exn_cont);
harness!(k1_valtype_encoder_matches_upstream);
harness!(k4_ieee32_from_float_bits);
harness!(k4_ieee64_from_float_bits);
harness!(k4_v128_bytes_preserved);

// loops: one initialiser instruction, LEB128 of at most 10 bytes, byte-vector comparison of at most 12 bytes; unwinding
// assertions are on, so the run is complete for single-constant initialisers (not a bounded stand-in)
#[kani::proof]
#[kani::unwind(14)]
fn k4_initexpr_numeric_const_matches_upstream() {
    let mut s = KaniSrc;
    if let Some((ok, _)) = bodies::k4_initexpr_numeric_const_matches_upstream(&mut s) {
        assert!(ok);
    }
}


// K5 (thorough tier only): the initialiser instructions that carry a function / global index are written out as the binary format
// prescribes (oracle written from the specification).  One harness per instruction kind: with a symbolic kind, or with two LEB128
// immediates (array.new_fixed / _data / _elem), CBMC ran out of memory (46 GB); the write-out / read-back bodies through
// wasmparser's reader (bodies::k5_initexpr_*_roundtrip*) did not finish either and are only used natively by the replay crate.
// loops: one LEB128 of at most 5 bytes (ours and the oracle's), byte vectors of at most 7 bytes; unwinding assertions are on.
#[kani::proof]
#[kani::unwind(16)]
fn k5_spec_global_get() {
    let mut s = KaniSrc;
    if let Some((ok, _)) = bodies::k5_initexpr_index_instr_matches_spec_of(0, &mut s) {
        assert!(ok);
    }
}
macro_rules! k5_spec {
    ($name:ident, $kind:expr) => {
        #[kani::proof]
        #[kani::unwind(16)]
        fn $name() {
            let mut s = KaniSrc;
            if let Some((ok, _)) = bodies::k5_initexpr_index_instr_matches_spec_of($kind, &mut s) {
                assert!(ok);
            }
        }
    };
}
k5_spec!(k5_spec_struct_new, 2);
k5_spec!(k5_spec_struct_new_default, 3);
k5_spec!(k5_spec_array_new, 4);
k5_spec!(k5_spec_array_new_default, 5);
k5_spec!(k5_spec_ref_i31, 9);
#[kani::proof]
#[kani::unwind(16)]
fn k5_spec_ref_func() {
    let mut s = KaniSrc;
    if let Some((ok, _)) = bodies::k5_initexpr_index_instr_matches_spec_of(1, &mut s) {
        assert!(ok);
    }
}
