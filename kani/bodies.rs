// Harness bodies, shared verbatim between the Kani build (Src = kani::any) and the native replay crate
// (Src = the bytes of a Kani counterexample).  `W` is the wirm crate root (`crate` under Kani, `wirm` natively).
// Each body returns Some(true/false) = the asserted condition, or None if the drawn input is outside the profile.

// description of the concrete case: built only in the native replay (formatting is very expensive for CBMC)
#[cfg(kani)]
macro_rules! desc { ($($t:tt)*) => { String::new() }; }
#[cfg(not(kani))]
macro_rules! desc { ($($t:tt)*) => { format!($($t)*) }; }

pub trait Src {
    fn u8(&mut self) -> u8;
    fn u32(&mut self) -> u32;
    fn u64(&mut self) -> u64;
    fn bool(&mut self) -> bool;
    fn bytes16(&mut self) -> [u8; 16];
}


use wasmparser::{AbstractHeapType, HeapType, RefType, UnpackedIndex, ValType};
use super::W;
use W::ir::types::DataType;

pub fn abstract_heap(i: u8) -> AbstractHeapType {
    match i {
        0 => AbstractHeapType::Func, 1 => AbstractHeapType::Extern, 2 => AbstractHeapType::Any, 3 => AbstractHeapType::None,
        4 => AbstractHeapType::NoExtern, 5 => AbstractHeapType::NoFunc, 6 => AbstractHeapType::Eq, 7 => AbstractHeapType::Struct,
        8 => AbstractHeapType::Array, 9 => AbstractHeapType::I31, 10 => AbstractHeapType::Exn, 11 => AbstractHeapType::NoExn,
        12 => AbstractHeapType::Cont, _ => AbstractHeapType::NoCont,
    }
}
/// a value type of the profile: numeric / vector types, (ref null? <abstract heap type in [lo,hi]>) unshared,
/// (ref null? <module type index < 2^20>)
pub fn any_valtype<S: Src>(s: &mut S, heap_lo: u8, heap_hi: u8) -> Option<ValType> {
    let kind = s.u8();
    let nullable = s.bool();
    let h = s.u8();
    let idx = s.u32();
    if kind > 6 { return None; }
    Some(match kind {
        0 => ValType::I32, 1 => ValType::I64, 2 => ValType::F32, 3 => ValType::F64, 4 => ValType::V128,
        5 => {
            if h < heap_lo || h > heap_hi { return None; }
            ValType::Ref(RefType::new(nullable, HeapType::Abstract { shared: false, ty: abstract_heap(h) }).unwrap())
        }
        _ => {
            if idx >= (1 << 20) { return None; }
            ValType::Ref(RefType::new(nullable, HeapType::Concrete(UnpackedIndex::Module(idx))).unwrap())
        }
    })
}

/// C01/C02/C30: a value type read from a module comes back as the same value type when the IR writes it out
/// (numeric + the ten abstract heap types that have a nullable and a non-nullable IR variant + concrete module types)
pub fn k1_valtype_roundtrip<S: Src>(s: &mut S) -> Option<(bool, String)> {
    let v = any_valtype(s, 0, 9)?;
    let d = DataType::from(v);
    let back = ValType::from(&d);
    Some((back == v, desc!("{:?} -> {:?} -> {:?}", v, d, back)))
}
/// the same for the exception / continuation heap types, whose IR variants carry no nullability
pub fn k1_valtype_roundtrip_exn_cont<S: Src>(s: &mut S) -> Option<(bool, String)> {
    let v = any_valtype(s, 10, 13)?;
    let d = DataType::from(v);
    let back = ValType::from(&d);
    Some((back == v, desc!("{:?} -> {:?} -> {:?}", v, d, back)))
}
/// C01: the wasm-encoder type the IR emits for a parsed value type is the one upstream's own re-encoder produces
pub fn k1_valtype_encoder_matches_upstream<S: Src>(s: &mut S) -> Option<(bool, String)> {
    use wasm_encoder::reencode::{Reencode, RoundtripReencoder};
    let v = any_valtype(s, 0, 9)?;
    let d = DataType::from(v);
    let ours = wasm_encoder::ValType::from(&d);
    let theirs = RoundtripReencoder.val_type(v).unwrap();
    Some((ours == theirs, desc!("{:?} -> {:?} -> {:?} (upstream {:?})", v, d, ours, theirs)))
}
/// C24/C30: f32 / f64 constants keep their exact bit pattern (all NaN payloads) through the Ieee wrappers
pub fn k4_ieee32_from_float_bits<S: Src>(s: &mut S) -> Option<(bool, String)> {
    let bits = s.u32();
    let w = wasmparser::Ieee32::from(f32::from_bits(bits));
    Some((w.bits() == bits, desc!("{:#x} -> {:#x}", bits, w.bits())))
}
pub fn k4_ieee64_from_float_bits<S: Src>(s: &mut S) -> Option<(bool, String)> {
    let bits = s.u64();
    let w = wasmparser::Ieee64::from(f64::from_bits(bits));
    Some((w.bits() == bits, desc!("{:#x} -> {:#x}", bits, w.bits())))
}
/// C02/C30: a v128 constant's sixteen bytes survive v128_to_u128 (little endian), also through the `as i128` the encoder applies
pub fn k4_v128_bytes_preserved<S: Src>(s: &mut S) -> Option<(bool, String)> {
    let b = s.bytes16();
    // V128 has no public constructor from bytes; it is a newtype over [u8; 16]
    let v: wasmparser::V128 = unsafe { std::mem::transmute::<[u8; 16], wasmparser::V128>(b) };
    let n = W::verif_export::v128_to_u128(&v);
    Some((n.to_le_bytes() == b && (n as i128).to_le_bytes() == b, desc!("{:?} -> {:#x}", b, n)))
}

/// C30/C02: a numeric constant initialiser is emitted bit-exactly: integers as upstream's const-expression builder emits
/// them, floats as opcode 0x43 / 0x44 followed by the little-endian IEEE bytes (every NaN payload) and `end`
/// (kind 0: i32, 1: i64, 2: f32 bits, 3: f64 bits)
pub fn k4_initexpr_numeric_const_matches_upstream<S: Src>(s: &mut S) -> Option<(bool, String)> {
    use wasm_encoder::Encode;
    use W::ir::types::{InitExpr, InitInstr, Value};
    let kind = s.u8();
    let bits = s.u64();
    if kind > 3 { return None; }
    let mut b: Vec<u8> = Vec::new();
    let v = match kind {
        0 => { wasm_encoder::ConstExpr::i32_const(bits as u32 as i32).encode(&mut b); Value::I32(bits as u32 as i32) }
        1 => { wasm_encoder::ConstExpr::i64_const(bits as i64).encode(&mut b); Value::I64(bits as i64) }
        2 => { b.push(0x43); b.extend_from_slice(&(bits as u32).to_le_bytes()); b.push(0x0B); Value::F32(f32::from_bits(bits as u32)) }
        _ => { b.push(0x44); b.extend_from_slice(&bits.to_le_bytes()); b.push(0x0B); Value::F64(f64::from_bits(bits)) }
    };
    let ours = W::verif_export::init_expr_to_wasmencoder(&InitExpr::new(vec![InitInstr::Value(v)]));
    let mut a: Vec<u8> = Vec::new();
    ours.encode(&mut a);
    Some((a == b, desc!("kind {} bits {:#x}: ours {:?} expected {:?}", kind, bits, a, b)))
}


/// C30/C07/C06/C02: an index-carrying (or GC) initialiser instruction written out by the IR is read back by wasmparser + the IR's own
/// reader as the same instruction with the same immediates, each in its own position (kind 0: global.get, 1: ref.func, 2..5:
/// struct.new / struct.new_default / array.new / array.new_default, 6..8: array.new_fixed / _data / _elem, 9: ref.i31)
pub fn k5_initexpr_index_instr_roundtrip<S: Src>(s: &mut S) -> Option<(bool, String)> {
    let kind = s.u8();
    k5_initexpr_index_instr_roundtrip_of(kind, s)
}
/// (the instruction kind is a parameter: one harness per kind keeps the decoder's opcode dispatch concrete for CBMC)
pub fn k5_initexpr_index_instr_roundtrip_of<S: Src>(kind: u8, s: &mut S) -> Option<(bool, String)> {
    use wasm_encoder::Encode;
    use W::ir::id::{FunctionID, GlobalID, TypeID};
    use W::ir::types::{InitExpr, InitInstr};
    let a = s.u32();
    let b = s.u32();
    if kind > 9 { return None; }
    let instr = match kind {
        0 => InitInstr::Global(GlobalID(a)),
        1 => InitInstr::RefFunc(FunctionID(a)),
        2 => InitInstr::StructNew(TypeID(a)),
        3 => InitInstr::StructNewDefault(TypeID(a)),
        4 => InitInstr::ArrayNew(TypeID(a)),
        5 => InitInstr::ArrayNewDefault(TypeID(a)),
        6 => InitInstr::RefArrayFixed { array_type_index: a, array_size: b },
        7 => InitInstr::RefArrayData { array_type_index: a, array_data_index: b },
        8 => InitInstr::RefArrayElem { array_type_index: a, array_elem_index: b },
        _ => InitInstr::RefI31,
    };
    let ours = W::verif_export::init_expr_to_wasmencoder(&InitExpr::new(vec![instr]));
    let mut bytes: Vec<u8> = Vec::new();
    ours.encode(&mut bytes);
    let cx = wasmparser::ConstExpr::new(wasmparser::BinaryReader::new(&bytes, 0));
    let ok = match W::verif_export::init_expr_eval(&cx) {
        Ok(e) => e.exprs.len() == 1 && match (e.exprs[0], instr) {
            (InitInstr::Global(x), InitInstr::Global(y)) => *x == *y,
            (InitInstr::RefFunc(x), InitInstr::RefFunc(y)) => *x == *y,
            (InitInstr::StructNew(x), InitInstr::StructNew(y)) => *x == *y,
            (InitInstr::StructNewDefault(x), InitInstr::StructNewDefault(y)) => *x == *y,
            (InitInstr::ArrayNew(x), InitInstr::ArrayNew(y)) => *x == *y,
            (InitInstr::ArrayNewDefault(x), InitInstr::ArrayNewDefault(y)) => *x == *y,
            (InitInstr::RefArrayFixed { array_type_index: t1, array_size: s1 }, InitInstr::RefArrayFixed { array_type_index: t2, array_size: s2 }) => t1 == t2 && s1 == s2,
            (InitInstr::RefArrayData { array_type_index: t1, array_data_index: d1 }, InitInstr::RefArrayData { array_type_index: t2, array_data_index: d2 }) => t1 == t2 && d1 == d2,
            (InitInstr::RefArrayElem { array_type_index: t1, array_elem_index: d1 }, InitInstr::RefArrayElem { array_type_index: t2, array_elem_index: d2 }) => t1 == t2 && d1 == d2,
            (InitInstr::RefI31, InitInstr::RefI31) => true,
            _ => false,
        },
        Err(_) => false,
    };
    Some((ok, desc!("kind {} a {} b {}: bytes {:?}", kind, a, b, bytes)))
}

/// C30/C02: `ref.null <heap type>` in an initialiser is written out and read back as the same heap type (the fourteen abstract heap
/// types, shared or not, and concrete module type indices < 2^20)
pub fn k5_initexpr_ref_null_roundtrip<S: Src>(s: &mut S) -> Option<(bool, String)> {
    use wasm_encoder::Encode;
    use W::ir::types::{InitExpr, InitInstr};
    let concrete = s.bool();
    let h = s.u8();
    let shared = s.bool();
    let idx = s.u32();
    let heap = if concrete {
        if idx >= (1 << 20) { return None; }
        HeapType::Concrete(UnpackedIndex::Module(idx))
    } else {
        if h > 13 { return None; }
        HeapType::Abstract { shared, ty: abstract_heap(h) }
    };
    let rt = RefType::new(true, heap)?;
    let ours = W::verif_export::init_expr_to_wasmencoder(&InitExpr::new(vec![InitInstr::RefNull(rt)]));
    let mut bytes: Vec<u8> = Vec::new();
    ours.encode(&mut bytes);
    let cx = wasmparser::ConstExpr::new(wasmparser::BinaryReader::new(&bytes, 0));
    let ok = match W::verif_export::init_expr_eval(&cx) {
        Ok(e) => e.exprs.len() == 1 && match e.exprs[0] { InitInstr::RefNull(back) => back == rt, _ => false },
        Err(_) => false,
    };
    Some((ok, desc!("concrete {} heap {} shared {} idx {}: bytes {:?}", concrete, h, shared, idx, bytes)))
}

/// unsigned LEB128 as the WebAssembly binary format defines it (the oracle of the harness below is written from the
/// specification, not taken from wasm-encoder or wasmparser)
pub fn leb_u32(mut v: u32, out: &mut Vec<u8>) {
    loop {
        let b = (v & 0x7f) as u8;
        v >>= 7;
        if v == 0 { out.push(b); break; } else { out.push(b | 0x80); }
    }
}
/// C30/C07/C06/C02: an index-carrying (or GC) initialiser instruction is written out exactly as the binary format prescribes:
/// its opcode (0x23 global.get, 0xd2 ref.func, 0xfb 0x00/0x01 struct.new[_default], 0xfb 0x06/0x07 array.new[_default],
/// 0xfb 0x08/0x09/0x0a array.new_fixed/_data/_elem, 0xfb 0x1c ref.i31), then each immediate as LEB128 IN ITS OWN POSITION
/// (type index first), then `end`
pub fn k5_initexpr_index_instr_matches_spec<S: Src>(s: &mut S) -> Option<(bool, String)> {
    let kind = s.u8();
    k5_initexpr_index_instr_matches_spec_of(kind, s)
}
pub fn k5_initexpr_index_instr_matches_spec_of<S: Src>(kind: u8, s: &mut S) -> Option<(bool, String)> {
    use wasm_encoder::Encode;
    use W::ir::id::{FunctionID, GlobalID, TypeID};
    use W::ir::types::{InitExpr, InitInstr};
    let a = s.u32();
    let b = s.u32();
    if kind > 9 { return None; }
    let mut exp: Vec<u8> = Vec::new();
    let instr = match kind {
        0 => { exp.push(0x23); leb_u32(a, &mut exp); InitInstr::Global(GlobalID(a)) }
        1 => { exp.push(0xd2); leb_u32(a, &mut exp); InitInstr::RefFunc(FunctionID(a)) }
        2 => { exp.push(0xfb); exp.push(0x00); leb_u32(a, &mut exp); InitInstr::StructNew(TypeID(a)) }
        3 => { exp.push(0xfb); exp.push(0x01); leb_u32(a, &mut exp); InitInstr::StructNewDefault(TypeID(a)) }
        4 => { exp.push(0xfb); exp.push(0x06); leb_u32(a, &mut exp); InitInstr::ArrayNew(TypeID(a)) }
        5 => { exp.push(0xfb); exp.push(0x07); leb_u32(a, &mut exp); InitInstr::ArrayNewDefault(TypeID(a)) }
        6 => { exp.push(0xfb); exp.push(0x08); leb_u32(a, &mut exp); leb_u32(b, &mut exp); InitInstr::RefArrayFixed { array_type_index: a, array_size: b } }
        7 => { exp.push(0xfb); exp.push(0x09); leb_u32(a, &mut exp); leb_u32(b, &mut exp); InitInstr::RefArrayData { array_type_index: a, array_data_index: b } }
        8 => { exp.push(0xfb); exp.push(0x0a); leb_u32(a, &mut exp); leb_u32(b, &mut exp); InitInstr::RefArrayElem { array_type_index: a, array_elem_index: b } }
        _ => { exp.push(0xfb); exp.push(0x1c); InitInstr::RefI31 }
    };
    exp.push(0x0b);
    let ours = W::verif_export::init_expr_to_wasmencoder(&InitExpr::new(vec![instr]));
    let mut bytes: Vec<u8> = Vec::new();
    ours.encode(&mut bytes);
    Some((bytes == exp, desc!("kind {} a {} b {}: ours {:?} expected {:?}", kind, a, b, bytes, exp)))
}
