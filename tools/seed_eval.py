#!/usr/bin/env python3
"""seed_eval.py <seed-id> <property> [more properties...]
Confirms a seeded change (patch + demonstration produced by a sub-agent in /tmp/seed/<id>/out) in a fresh scratch
worktree, then applies it to /repo, runs the registered checks for the given properties, undoes it, and writes
/verif/seeded/<id>/{patch.diff, seed_demo.rs, notes.md, meta.json}."""
import json, os, re, shutil, subprocess, sys, time
VERIF = os.path.dirname(os.path.dirname(os.path.abspath(__file__)))
sid = sys.argv[1]; props = sys.argv[2:]
src = "/tmp/seed/%s/out" % sid
dst = os.path.join(VERIF, "seeded", sid)
os.makedirs(dst, exist_ok=True)
for f in ("patch.diff", "seed_demo.rs", "notes.md"):
    if os.path.exists(os.path.join(src, f)): shutil.copy(os.path.join(src, f), os.path.join(dst, f))
def sh(cmd, cwd=None, timeout=3600):
    p = subprocess.run(cmd, shell=True, cwd=cwd, stdout=subprocess.PIPE, stderr=subprocess.STDOUT, text=True, timeout=timeout)
    return p.returncode, p.stdout
wt = "/tmp/seedchk/%s" % sid
sh("git -C /repo worktree remove --force %s" % wt); shutil.rmtree(wt, ignore_errors=True)
rc, out = sh("git -C /repo worktree add -q --detach %s HEAD" % wt)
old_meta = json.load(open(os.path.join(dst, "meta.json"))) if os.path.exists(os.path.join(dst, "meta.json")) else {}
PRESERVE = ("summary", "before_strengthening", "needs_to_manifest")
meta = {"seed": sid, "breaks_property": props[0], "checked_properties": props, "repo_commit": sh("git -C /repo log --format=%h -1")[1].strip()}
try:
    shutil.copy(os.path.join(dst, "seed_demo.rs"), os.path.join(wt, "tests", "seed_demo.rs"))
    env = "CARGO_NET_OFFLINE=true CARGO_TARGET_DIR=/tmp/seedchk/target"
    def tests(tag):
        rc, out = sh("%s cargo test --offline --no-fail-fast 2>&1" % env, cwd=wt)
        passed = set(); binname = None
        for ln in out.split("\n"):
            m = re.search(r"Running (?:unittests )?(\S+) \(", ln)
            if m: f = m.group(1); binname = None if f.startswith("src/") else f.split("/")[-1][:-3]
            m = re.match(r"test (\S+)(?: - should panic)? \.\.\. ok", ln)
            if m: passed.add("wirm::" + ((binname + "::") if binname else "") + m.group(1))
        return passed
    base = json.load(open("/root/.vp/BASELINE.json"))["stable_pass"]
    p0 = tests("without")
    demo0 = sorted(t for t in p0 if "seed_demo" in t)
    rc, out = sh("git apply %s" % os.path.join(dst, "patch.diff"), cwd=wt)
    meta["patch_applies"] = (rc == 0)
    if rc != 0 and old_meta.get("patch_applies"):
        # the code the seed edits has changed since (a fix commit): keep the recorded result, only mark it
        old_meta["stale"] = "patch no longer applies to the current tree (%s); the result below was recorded at repo commit %s" % (meta["repo_commit"], old_meta.get("repo_commit"))
        json.dump(old_meta, open(os.path.join(dst, "meta.json"), "w"), indent=1)
        print("STALE: patch does not apply any more; recorded result kept")
        sh("git -C /repo worktree remove --force %s" % wt)
        sys.exit(0)
    rcb, outb = sh("%s cargo build --offline 2>&1 | tail -3" % env, cwd=wt)
    p1 = tests("with")
    demo1 = sorted(t for t in p1 if "seed_demo" in t)
    meta["compiles_with_patch"] = "error" not in outb
    meta["baseline_missing_without_patch"] = sorted(set(base) - p0)
    meta["baseline_missing_with_patch"] = sorted(set(base) - p1)
    meta["demo_tests_passing_without_patch"] = demo0
    meta["demo_tests_passing_with_patch"] = demo1
    meta["demo_discriminates"] = len(demo0) > len(demo1)
finally:
    sh("git -C /repo worktree remove --force %s" % wt); shutil.rmtree(wt, ignore_errors=True)
# now the checks on /repo
rc, out = sh("git -C /repo status --porcelain")
assert out.strip() == "", "repo not clean"
rc, out = sh("git -C /repo apply %s" % os.path.join(dst, "patch.diff"))
meta["check_results"] = {}
for k in PRESERVE:
    if k in old_meta: meta[k] = old_meta[k]
try:
    for pr in props:
        t0 = time.time()
        rc, out = sh("./check %s --tier quick" % pr, cwd=VERIF)
        lines = [l for l in out.strip().split("\n") if l.startswith(("VIOLATION", "UNDECIDED", "OK", "KNOWN"))]
        meta["check_results"][pr] = {"exit": rc, "lines": [l[:400] for l in lines[:6]], "wall_s": round(time.time() - t0, 1)}
finally:
    sh("git -C /repo checkout -- .")
meta["caught_by"] = [p for p, r in meta["check_results"].items() if r["exit"] == 1]
json.dump(meta, open(os.path.join(dst, "meta.json"), "w"), indent=1)
print(json.dumps({k: meta[k] for k in ("patch_applies", "compiles_with_patch", "baseline_missing_with_patch", "demo_discriminates", "caught_by")}, indent=1))
for p, r in meta["check_results"].items(): print(p, r["exit"], r["lines"][:2])
