#!/usr/bin/env python3
"""Regenerates /verif/MANIFEST.json from vlib/props.py (single source of truth)."""
import json, os, sys
VERIF = os.path.dirname(os.path.dirname(os.path.abspath(__file__)))
sys.path.insert(0, VERIF)
from vlib import props

ids = [json.loads(l)["id"] for l in open(os.path.join(VERIF, "properties.jsonl")) if l.strip()]
checks = []
for pid in ids:
    if pid not in props.PROPS:
        continue
    P = props.PROPS[pid]
    backends = []
    if P.get("units"): backends.append("Verus/Z3 contracts on function bodies extracted from /repo/src on every run")
    if P.get("kani"): backends.append("Kani/CBMC loop-free full-domain harnesses on the compiled crate")
    checks.append({
        "property_id": pid,
        "quick_cmd": "./check %s --tier quick" % pid,
        "thorough_cmd": "./check %s --tier thorough" % pid,
        "evidence_file": "evidence/%s.json" % pid,
        "replay_cmd_template": "./check %s --replay {path}" % pid,
        "engine": "contracts",
        "level_claimed": {
            "category": "proof",
            "text": P.get("level_text", "Every listed obligation (postcondition, invariant, lemma, panic/overflow freedom) of the functions this property depends on is discharged for all inputs by a deductive verifier on the real function bodies; the parts of the mechanism that are not under contract are named as glue."),
            "design_ref": P.get("design_ref", "DESIGN.md §5"),
        },
        "level_note": "Trusted: extraction rules R1-R31 (DESIGN.md §2.1), vstd library specs, assumed specs listed in evidence.trusted_base. Unverified glue: " + "; ".join(P.get("glue", [])),
        "technique": "contract-based deductive verification (" + " + ".join(backends) + ")",
    })
na = []
for pid in ids:
    if pid not in props.PROPS:
        na.append({"property_id": pid, "reason": props.NOT_APPLICABLE.get(pid, "not yet built: no contract unit covers this property at this commit")})
m = {
    "version": 1,
    "setup_cmd": "./setup.sh",
    "hooks": {
        "guard": "wirm_verif",
        "enable": "RUSTFLAGS=\"--cfg wirm_verif\" (Kani sets cfg(kani) itself); Verus units need no hook: they read /repo/src",
        "baseline_off_cmd": "cd /repo && cargo test --workspace --no-fail-fast --offline",
        "source_commits": props.HOOK_COMMITS if hasattr(props, "HOOK_COMMITS") else [],
        "add_only": True,
    },
    "engines": [{"name": "contracts", "path": "check", "serves_properties": [c["property_id"] for c in checks],
                 "kind_free_text": "python driver: mechanical extraction of real function bodies + spliced contracts -> Verus; Kani harnesses for loop-free finite-domain code"}],
    "checks": checks,
    "not_applicable": na,
    "notes": "Exit 2 = undecided (lost anchor / unsupported construct / tool limit), never reported as a violation. Known findings: known_findings.json.",
}
json.dump(m, open(os.path.join(VERIF, "MANIFEST.json"), "w"), indent=1)
print("MANIFEST.json: %d checks, %d not_applicable" % (len(checks), len(na)))
