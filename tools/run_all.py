#!/usr/bin/env python3
"""Runs every registered check (quick by default) and validates the evidence files."""
import json, subprocess, sys, os, time
from concurrent.futures import ThreadPoolExecutor
VERIF = os.path.dirname(os.path.dirname(os.path.abspath(__file__)))
tier = sys.argv[1] if len(sys.argv) > 1 else "quick"
m = json.load(open(os.path.join(VERIF, "MANIFEST.json")))
def run(c):
    cmd = c["quick_cmd"] if tier == "quick" else c["thorough_cmd"]
    t0 = time.time()
    p = subprocess.run(cmd, shell=True, cwd=VERIF, stdout=subprocess.PIPE, stderr=subprocess.STDOUT, text=True)
    return c["property_id"], p.returncode, p.stdout.strip().split("\n")[-1][:160], time.time() - t0
# Kani-using checks share one target dir: run those sequentially, the rest in parallel
sys.path.insert(0, VERIF)
from vlib import props
def uses_kani(pid):
    P = props.PROPS[pid]
    return bool(P.get("kani")) or (tier != "quick" and bool(P.get("kani_thorough")))
kani_checks = [c for c in m["checks"] if uses_kani(c["property_id"])]
other = [c for c in m["checks"] if not uses_kani(c["property_id"])]
res = []
with ThreadPoolExecutor(max_workers=6) as ex:
    fut = ex.map(run, other)
    for c in kani_checks: res.append(run(c))
    res += list(fut)
bad = 0
try:
    import jsonschema
    schema = json.load(open("/root/.vp/EVIDENCE.schema.json"))
except Exception:
    jsonschema = None
for pid, rc, last, wall in sorted(res):
    ev = os.path.join(VERIF, "evidence", pid + ".json")
    note = ""
    try:
        e = json.load(open(ev))
        if jsonschema: jsonschema.validate(e, schema)
        if e["coverage"]["obligations"] != e["coverage"]["discharged"]: note = " EVIDENCE: obligations != discharged"
    except Exception as x:
        note = " EVIDENCE INVALID: %s" % str(x)[:80]
    if rc != 0 or note: bad += 1
    print("%s rc=%d %5.1fs %s%s" % (pid, rc, wall, last, note))
sys.exit(1 if bad else 0)
