#!/bin/sh
# quick re-evaluation of recorded seeds: apply each seed patch to /repo, run the check of the property it breaks, revert (no cargo tests; see seed_eval.py for the full confirmation)
cd /verif
for s in "$@"; do
  p=$(python3 -c "import json;print(json.load(open('seeded/$s/meta.json'))['breaks_property'])")
  if git -C /repo apply --check /verif/seeded/$s/patch.diff 2>/dev/null; then
    git -C /repo apply /verif/seeded/$s/patch.diff
    r=$(./check $p 2>&1 | grep -E "^(VIOLATION|UNDECIDED|OK)" | head -2 | cut -c1-220)
    git -C /repo checkout -- .
    echo "$s [$p]: $r"
  else echo "$s [$p]: patch does not apply (stale)"; fi
done
