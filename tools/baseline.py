#!/usr/bin/env python3
"""Runs the repository's test suite (guard off) and checks that every test in BASELINE.json's
stable_pass list passes.  Exit 0 iff all of them pass."""
import json, re, subprocess, sys
base = json.load(open("/root/.vp/BASELINE.json"))
want = set(base["stable_pass"])
where = sys.argv[1] if len(sys.argv) > 1 else "/repo"
p = subprocess.run("cd " + where + " && CARGO_TARGET_DIR=" + ("/tmp/fixwt/target" if where != "/repo" else "target") + " cargo test --workspace --no-fail-fast --offline 2>&1", shell=True, stdout=subprocess.PIPE, text=True)
binname = None
passed = set()
for ln in p.stdout.split("\n"):
    m = re.search(r"Running (?:unittests )?(\S+) \(", ln)
    if m:
        f = m.group(1)
        binname = None if f.startswith("src/") else f.split("/")[-1][:-3]
    m = re.match(r"test (\S+)(?: - should panic)? \.\.\. ok", ln)
    if m:
        passed.add("wirm::" + ((binname + "::") if binname else "") + m.group(1))
missing = sorted(want - passed)
print("baseline: %d/%d stable tests pass" % (len(want) - len(missing), len(want)))
for m in missing[:20]: print("  NOT PASSING:", m)
sys.exit(1 if missing else 0)
