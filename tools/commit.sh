#!/bin/sh
# runs every check on the unchanged tree, regenerates MANIFEST + evidence, and commits only if all 29 exit 0
cd "$(dirname "$0")/.." || exit 1
[ -z "$(git -C /repo status --porcelain)" ] || { echo "/repo has uncommitted changes"; exit 1; }
out=$(python3-vt tools/run_all.py 2>&1)
echo "$out" | grep -v "rc=0" | head -5
if echo "$out" | grep -q "rc=[12]"; then echo "NOT committing: a check did not exit 0"; exit 1; fi
python3 tools/gen_manifest.py && git add -A && git commit -qm "$1" && echo committed
