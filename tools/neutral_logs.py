#!/usr/bin/env python3
"""Neutral-change sweep: inserts `log::trace!("neutral");` as the first statement of every function under contract
(taken from the evidence files), rebuilds, runs every check and expects exit 0 everywhere (never exit 1). Reverts /repo."""
import glob, json, os, re, subprocess, sys
sys.path.insert(0, "/verif")
from vlib.rustlex import lex, sig, match_close
spans = {}
for f in glob.glob("/verif/evidence/C*.json"):
    d = json.load(open(f))
    for pc in d["coverage"].get("functions_under_contract", []):
        if isinstance(pc, dict) and pc.get("byte_span") and pc["path"].startswith("src/"):
            spans.setdefault(pc["path"], set()).add(tuple(pc["byte_span"]))
n = 0
for path, sps in spans.items():
    full = "/repo/" + path
    src = open(full).read()
    edits = []
    for (a, b) in sorted(sps):
        txt = src[a:b]
        st = sig(lex(txt))
        # only fn items (first significant tokens contain `fn NAME`), find body open brace
        k = 0
        while k < len(st) and (st[k].text in ("pub", "unsafe", "async", "const", "default") or st[k].text in ("(", ")", "crate", "super", "in")): k += 1
        if not (k < len(st) and st[k].text == "fn"): continue
        d = 0; bo = None
        for j, x in enumerate(st):
            if x.kind == "punct":
                if x.text == "{" and d == 0: bo = j; break
                if x.text == ";" and d == 0: break
                if x.text in "([": d += 1
                elif x.text in ")]": d -= 1
        if bo is None: continue
        edits.append(a + st[bo].end)
    for pos in sorted(set(edits), reverse=True):
        src = src[:pos] + ' log::trace!("neutral");' + src[pos:]; n += 1
    open(full, "w").write(src)
print("inserted", n, "log statements")
r = subprocess.run("cd /repo && cargo build --offline 2>&1 | grep -E '^error' -A6 | head -20", shell=True, stdout=subprocess.PIPE, text=True)
print(r.stdout)

rc = subprocess.run("cd /verif && python3-vt tools/run_all.py 2>&1 | grep -E 'rc=' ", shell=True, stdout=subprocess.PIPE, text=True).stdout
bad = [l for l in rc.split("\n") if "rc=1" in l]
und = [l for l in rc.split("\n") if "rc=2" in l]
print("exit 1 (FALSE ALARMS):", len(bad)); print("\n".join(bad))
print("exit 2 (undecided):", len(und)); print("\n".join(l[:200] for l in und))
subprocess.run("git -C /repo checkout -- .", shell=True)
