//! Native replay of Kani counterexamples: the same harness bodies (/verif/kani/bodies.rs), fed with the concrete
//! values of a counterexample instead of kani::any().
use wirm as W;
#[path = "/verif/kani/bodies.rs"]
mod bodies;
use bodies::Src;

pub struct BytesSrc { vals: Vec<Vec<u8>>, pos: usize }
impl BytesSrc {
    fn next(&mut self, n: usize) -> Vec<u8> {
        let v = self.vals.get(self.pos).cloned().unwrap_or_else(|| vec![0; n]);
        self.pos += 1;
        let mut v = v; v.resize(n, 0); v
    }
}
impl Src for BytesSrc {
    fn u8(&mut self) -> u8 { self.next(1)[0] }
    fn u32(&mut self) -> u32 { u32::from_le_bytes(self.next(4).try_into().unwrap()) }
    fn u64(&mut self) -> u64 { u64::from_le_bytes(self.next(8).try_into().unwrap()) }
    fn bool(&mut self) -> bool { self.next(1)[0] != 0 }
    fn bytes16(&mut self) -> [u8; 16] { self.next(16).try_into().unwrap() }
}
/// returns exit code: 0 = the asserted condition holds on this input, 1 = it fails (violation reproduced), 2 = input outside the profile
pub fn run(harness: &str, vals: Vec<Vec<u8>>) -> i32 {
    let mut s = BytesSrc { vals, pos: 0 };
    let r = match harness {
        "k1_valtype_roundtrip" => bodies::k1_valtype_roundtrip(&mut s),
        "k1_valtype_roundtrip_exn_cont" => bodies::k1_valtype_roundtrip_exn_cont(&mut s),
        "k1_valtype_encoder_matches_upstream" => bodies::k1_valtype_encoder_matches_upstream(&mut s),
        "k4_ieee32_from_float_bits" => bodies::k4_ieee32_from_float_bits(&mut s),
        "k4_ieee64_from_float_bits" => bodies::k4_ieee64_from_float_bits(&mut s),
        "k4_v128_bytes_preserved" => bodies::k4_v128_bytes_preserved(&mut s),
        "k4_initexpr_numeric_const_matches_upstream" => bodies::k4_initexpr_numeric_const_matches_upstream(&mut s),
        "k5_initexpr_index_instr_roundtrip" => bodies::k5_initexpr_index_instr_roundtrip(&mut s),
        "k5_initexpr_ref_null_roundtrip" => bodies::k5_initexpr_ref_null_roundtrip(&mut s),
        "k5_initexpr_index_instr_matches_spec" => bodies::k5_initexpr_index_instr_matches_spec(&mut s),
        "k5_spec_global_get" => bodies::k5_initexpr_index_instr_matches_spec_of(0, &mut s),
        "k5_spec_ref_func" => bodies::k5_initexpr_index_instr_matches_spec_of(1, &mut s),
        "k5_spec_struct_new" => bodies::k5_initexpr_index_instr_matches_spec_of(2, &mut s),
        "k5_spec_struct_new_default" => bodies::k5_initexpr_index_instr_matches_spec_of(3, &mut s),
        "k5_spec_array_new" => bodies::k5_initexpr_index_instr_matches_spec_of(4, &mut s),
        "k5_spec_array_new_default" => bodies::k5_initexpr_index_instr_matches_spec_of(5, &mut s),
        "k5_spec_ref_i31" => bodies::k5_initexpr_index_instr_matches_spec_of(9, &mut s),
        _ => { println!("unknown harness {harness}"); return 2; }
    };
    match r {
        None => { println!("REPLAY harness={harness} input outside the profile"); 2 }
        Some((true, d)) => { println!("REPLAY harness={harness} holds: {d}"); 0 }
        Some((false, d)) => { println!("REPLAY harness={harness} FAILS on the real code: {d}"); 1 }
    }
}
