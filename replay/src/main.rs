use std::panic::{catch_unwind, AssertUnwindSafe};
use wirm::ir::function::FunctionBuilder;
use wirm::ir::id::*;
use wirm::ir::types::{InstrumentationMode};
use wirm::iterator::module_iterator::ModuleIterator;
use wirm::iterator::iterator_trait::Iterator as _;
use wirm::opcode::{Opcode, InjectAt, Instrumenter};
use wirm::{DataType, Module};

fn show(tag: &str, bytes: &[u8]) {
    let v = wasmparser::Validator::new_with_features(wasmparser::WasmFeatures::all()).validate_all(bytes);
    println!("--- {tag}: valid={}", v.is_ok());
    if let Err(e) = &v { println!("    validation error: {e}"); }
    match wasmprinter::print_bytes(bytes) { Ok(t) => println!("{t}"), Err(e) => println!("    print error {e}") }
}
fn run<F: FnOnce()>(name: &str, f: F) {
    println!("\n================ {name}");
    let r = catch_unwind(AssertUnwindSafe(f));
    if let Err(e) = r {
        let msg = e.downcast_ref::<String>().cloned().or_else(|| e.downcast_ref::<&str>().map(|s| s.to_string())).unwrap_or_default();
        println!("!!! PANIC: {msg}");
    }
}
mod kani_replay;
fn main() {
    let args: Vec<String> = std::env::args().collect();
    if args.len() >= 3 && args[1] == "kani" {
        // wirm-replay kani <harness> <v1,v2,..> <v1,..> ...   (decimal bytes of each kani::any value, in draw order)
        let vals: Vec<Vec<u8>> = args[3..].iter().map(|a| a.split(',').filter(|x| !x.is_empty()).map(|x| x.parse::<u8>().unwrap()).collect()).collect();
        std::process::exit(kani_replay::run(&args[2], vals));
    }
    std::panic::set_hook(Box::new(|_| {}));
    run("S2 add import then delete it", || {
        let w = wat::parse_str(r#"(module (func $a) (func $b call $a) (export "b" (func $b)) (export "a" (func $a)))"#).unwrap();
        let mut m = Module::parse(&w, false).unwrap();
        let ty = m.types.add_func_type(&[], &[], None);
        let (fid, _) = m.add_import_func("m".into(), "x".into(), ty);
        m.delete_func(fid);
        show("S2", &m.encode());
    });
    run("S3 convert f2 then f1 to imports", || {
        let w = wat::parse_str(r#"(module (func $f0 (result i32) i32.const 0) (func $f1 (result i32) i32.const 1) (func $f2 (result i32) i32.const 2)
            (func $g (result i32) call $f1 call $f2 i32.add) (export "f1" (func $f1)) (export "f2" (func $f2)) (export "g" (func $g)))"#).unwrap();
        let mut m = Module::parse(&w, false).unwrap();
        let ty = m.types.add_func_type(&[], &[DataType::I32], None);
        m.convert_local_fn_to_import(FunctionID(2), "env".into(), "was_f2".into(), ty);
        m.convert_local_fn_to_import(FunctionID(1), "env".into(), "was_f1".into(), ty);
        show("S3", &m.encode());
    });
    run("S4 replace import with non-function import before it", || {
        let w = wat::parse_str(r#"(module (import "m" "mem" (memory 1)) (import "m" "f" (func $f)) (func $g call $f) (func $h) (export "g" (func $g)) (export "h" (func $h)))"#).unwrap();
        let mut m = Module::parse(&w, false).unwrap();
        let mut fb = FunctionBuilder::new(&[], &[]);
        fb.nop();
        fb.replace_import_in_module(&mut m, ImportsID(1));
        show("S4", &m.encode());
    });
    run("S5 build function after local->import conversion", || {
        let w = wat::parse_str(r#"(module (func $f0) (func $f1 call $f0))"#).unwrap();
        let mut m = Module::parse(&w, false).unwrap();
        let ty = m.types.add_func_type(&[], &[], None);
        m.convert_local_fn_to_import(FunctionID(0), "env".into(), "f0".into(), ty);
        let mut fb = FunctionBuilder::new(&[], &[]);
        fb.nop();
        let id = fb.finish_module(&mut m);
        println!("new id {:?}", id);
        show("S5", &m.encode());
    });
    run("S6 encode twice after deleting func 0", || {
        let w = wat::parse_str(r#"(module (func $f0) (func $f1) (func $f2 call $f1) (export "f2" (func $f2)))"#).unwrap();
        let mut m = Module::parse(&w, false).unwrap();
        m.delete_func(FunctionID(0));
        let r1 = catch_unwind(AssertUnwindSafe(|| m.encode()));
        let a = r1.unwrap();
        let r2 = catch_unwind(AssertUnwindSafe(|| m.encode()));
        match r2 { Ok(b) => { println!("same bytes: {}", a == b); show("S6 first", &a); show("S6 second", &b); }, Err(_) => { println!("second encode PANICKED"); show("S6 first", &a); } }
    });
    run("S7 inject_at BlockEntry via FunctionModifier", || {
        let w = wat::parse_str(r#"(module (func $f0 block nop end))"#).unwrap();
        let mut m = Module::parse(&w, false).unwrap();
        {
            let mut fm = m.functions.get_fn_modifier(FunctionID(0)).unwrap();
            fm.inject_at(0, InstrumentationMode::BlockEntry, wasmparser::Operator::Unreachable);
        }
        show("S7", &m.encode());
    });
    run("S9a iterator on module without functions", || {
        let w = wat::parse_str(r#"(module (memory 1))"#).unwrap();
        let mut m = Module::parse(&w, false).unwrap();
        let mut it = ModuleIterator::new(&mut m, &vec![]);
        println!("created; curr_op is_none={} next is_none={}", it.curr_op().is_none(), it.next().is_none());
    });
    run("S9b iterator with all functions skipped", || {
        let w = wat::parse_str(r#"(module (func nop) (func nop nop))"#).unwrap();
        let mut m = Module::parse(&w, false).unwrap();
        let mut it = ModuleIterator::new(&mut m, &vec![FunctionID(0), FunctionID(1)]);
        println!("created");
        println!("curr_op is_none={}", it.curr_op().is_none());
        println!("next is_none={}", it.next().is_none());
        it.reset();
        println!("after reset: curr_op is_none={}", it.curr_op().is_none());
    });
    run("S9c iterator with first function skipped: end flag", || {
        let w = wat::parse_str(r#"(module (func nop) (func nop nop nop))"#).unwrap();
        let mut m = Module::parse(&w, false).unwrap();
        let mut it = ModuleIterator::new(&mut m, &vec![FunctionID(0)]);
        let mut n = 0;
        loop { let (loc, end) = it.curr_loc(); println!("  {:?} end={}", loc, end); n += 1; if it.next().is_none() { break; } }
        println!("visited {n} (expected 4: nop nop nop end)");
    });
    run("S14 component iterator: trailing skipped function / empty module must not end the traversal", || {
        use wirm::iterator::component_iterator::ComponentIterator;
        use std::collections::HashMap;
        let w = wat::parse_str(r#"(component
            (core module $m0 (func nop) (func nop nop))
            (core module $m1 (memory 1))
            (core module $m2 (func nop nop nop)))"#).unwrap();
        let mut c = wirm::Component::parse(&w, false).unwrap();
        let mut skip = HashMap::new();
        skip.insert(ModuleID(0), vec![FunctionID(1)]);
        let mut it = ComponentIterator::new(&mut c, skip);
        let mut n = 0;
        loop { if it.curr_op().is_some() { let (loc, end) = it.curr_loc(); println!("  {:?} end={}", loc, end); n += 1; } if it.next().is_none() { break; } }
        println!("visited {n} (expected 6: m0.f0 nop end, m2.f0 nop nop nop end)");
    });
    run("S15 set_fn_name on an imported function that follows a non-function import", || {
        let w = wat::parse_str(r#"(module (import "m" "mem" (memory 1)) (import "m" "f" (func $f)) (import "m" "g" (func $g)) (func $h call $f))"#).unwrap();
        let mut m = Module::parse(&w, false).unwrap();
        m.set_fn_name(FunctionID(0), "renamed_f".into());
        show("S15", &m.encode());
    });
    run("S8 iterator-level add_global, then add_imported_global", || {
        use wirm::ir::module::module_globals::{Global, GlobalKind, LocalGlobal};
        use wirm::ir::types::{InitExpr, InitInstr, Value};
        use wirm::iterator::iterator_trait::IteratingInstrumenter;
        let w = wat::parse_str(r#"(module (func nop))"#).unwrap();
        let mut m = Module::parse(&w, false).unwrap();
        let g = Global::new(GlobalKind::Local(LocalGlobal { global_id: GlobalID(0),
            ty: wasmparser::GlobalType { content_type: wasmparser::ValType::I32, mutable: true, shared: false },
            init_expr: InitExpr::new(vec![InitInstr::Value(Value::I32(5))]) }), None);
        let gid = { let mut it = ModuleIterator::new(&mut m, &vec![]); it.add_global(g) };
        let (igid, _) = m.add_imported_global("env".into(), "ig".into(), DataType::I64, false, false);
        println!("iterator global id {:?}, imported global id {:?} (must differ)", gid, igid);
    });
    run("S13b duplicate explicit types: which id does add_func_type return? (run in several processes)", || {
        let w = wat::parse_str(r#"(module (type (func)) (type (func)) (func (type 0)) (func (type 1)))"#).unwrap();
        let mut m = Module::parse(&w, false).unwrap();
        let ty = m.types.add_func_type(&[], &[], None);
        println!("add_func_type(&[], &[]) -> {:?}", ty);
    });
    run("S10 set_fn_name on added import", || {
        let w = wat::parse_str(r#"(module (func $a))"#).unwrap();
        let mut m = Module::parse(&w, false).unwrap();
        let ty = m.types.add_func_type(&[], &[], None);
        let (fid, _) = m.add_import_func("m".into(), "x".into(), ty);
        m.set_fn_name(fid, "renamed".into());
        show("S10", &m.encode());
    });
    run("S12 parse extended const initialiser", || {
        let w = wat::parse_str(r#"(module (global i32 (i32.add (i32.const 1) (i32.const 2))))"#).unwrap();
        let r = Module::parse(&w, false);
        println!("parse ok={}", r.is_ok());
    });
    run("S11 exnref local round trip", || {
        let w = wat::parse_str(r#"(module (func (local exnref)))"#).unwrap();
        let mut m = Module::parse(&w, false).unwrap();
        show("S11", &m.encode());
    });
    run("S13 global export after adding imported global", || {
        let w = wat::parse_str(r#"(module (global $g (mut i32) (i32.const 7)) (func (result i32) global.get $g) (export "g" (global $g)))"#).unwrap();
        let mut m = Module::parse(&w, false).unwrap();
        m.add_imported_global("env".into(), "ig".into(), DataType::I64, false, false);
        show("S13", &m.encode());
    });
    run("S16 block-exit probe on an `if` whose then-arm contains a nested block (C19)", || {
        // expected: the probe (i32.const 77; drop) right before the `else` of the if; a nested block's `end` must not get it
        let w = wat::parse_str(r#"(module (func (param i32) local.get 0 if block nop end i32.const 1 drop else i32.const 2 drop end))"#).unwrap();
        let mut m = Module::parse(&w, false).unwrap();
        {
            let mut fm = m.functions.get_fn_modifier(FunctionID(0)).unwrap();
            // instruction 1 is the `if`
            fm.inject_at(1, InstrumentationMode::BlockExit, wasmparser::Operator::I32Const { value: 77 });
            fm.inject_at(1, InstrumentationMode::BlockExit, wasmparser::Operator::Drop);
        }
        show("S16", &m.encode());
    });
    run("S17 semantic-after probes of three branches to the same block (C20)", || {
        let w = wat::parse_str(r#"(module (func (param i32) block local.get 0 br_if 0 local.get 0 br_if 0 local.get 0 br_if 0 end))"#).unwrap();
        let mut m = Module::parse(&w, false).unwrap();
        {
            let mut fm = m.functions.get_fn_modifier(FunctionID(0)).unwrap();
            for i in [2usize, 4, 6] {
                fm.inject_at(i, InstrumentationMode::SemanticAfter, wasmparser::Operator::I32Const { value: 70 + i as i32 });
                fm.inject_at(i, InstrumentationMode::SemanticAfter, wasmparser::Operator::Drop);
            }
        }
        let bytes = m.encode();
        println!("validates: {:?}", wasmparser::validate(&bytes).is_ok());
        show("S17", &bytes);
    });
    run("S18 encode twice: data offset `global.get` is rewritten in place (C05)", || {
        let w = wat::parse_str(r#"(module (global $l i32 (i32.const 8)) (memory 1) (data (global.get $l) "hi"))"#).unwrap();
        let mut m = Module::parse(&w, false).unwrap();
        m.add_imported_global("env".into(), "other".into(), DataType::I32, false, false);
        let r1 = catch_unwind(AssertUnwindSafe(|| m.encode()));
        let a = r1.unwrap();
        let r2 = catch_unwind(AssertUnwindSafe(|| m.encode()));
        match r2 { Ok(b) => { println!("same bytes: {}", a == b); show("S18 first", &a); show("S18 second", &b); }, Err(_) => { println!("second encode PANICKED"); show("S18 first", &a); } }
    });
    run("S19 parse: crafted inputs must give Ok or Err, never a panic (C03)", || {
        fn leb(mut n: u32) -> Vec<u8> { let mut v = vec![]; loop { let b = (n & 0x7f) as u8; n >>= 7; if n == 0 { v.push(b); break; } v.push(b | 0x80); } v }
        fn section(id: u8, body: &[u8]) -> Vec<u8> { let mut v = vec![id]; v.extend(leb(body.len() as u32)); v.extend_from_slice(body); v }
        fn custom(name: &str, body: &[u8]) -> Vec<u8> { let mut b = leb(name.len() as u32); b.extend_from_slice(name.as_bytes()); b.extend_from_slice(body); section(0, &b) }
        let hdr: Vec<u8> = vec![0, 0x61, 0x73, 0x6d, 1, 0, 0, 0];
        // one function `(func)`: type, function, code sections
        let base: Vec<u8> = [section(1, &[1, 0x60, 0, 0]), section(3, &[1, 0]), section(10, &[1, 2, 0, 0x0b])].concat();
        // name section, function-names subsection (id 1): one naming (index 7, "x") - index out of range
        let fn_names = { let m = [leb(1), leb(7), leb(1), b"x".to_vec()].concat(); [vec![1u8], leb(m.len() as u32), m].concat() };
        // the same subsection with a VALID index (0), but the name section placed BEFORE the code section
        let fn_names_ok = { let m = [leb(1), leb(0), leb(1), b"x".to_vec()].concat(); [vec![1u8], leb(m.len() as u32), m].concat() };
        let cases: Vec<(&str, Vec<u8>)> = vec![
            ("name section names function 7 of 1", [hdr.clone(), base.clone(), custom("name", &fn_names)].concat()),
            ("VALID module, name section before the code section", [hdr.clone(), section(1, &[1, 0x60, 0, 0]), section(3, &[1, 0]), custom("name", &fn_names_ok), section(10, &[1, 2, 0, 0x0b])].concat()),
            ("producers section with zero fields", [hdr.clone(), custom("producers", &[0])].concat()),
            ("tag section with a bad attribute byte", [hdr.clone(), section(1, &[1, 0x60, 0, 0]), section(13, &[1, 9, 0])].concat()),
            ("more code bodies than declared functions", [hdr.clone(), section(1, &[1, 0x60, 0, 0]), section(3, &[1, 0]), section(10, &[2, 2, 0, 0x0b, 2, 0, 0x0b])].concat()),
            ("function of an undeclared type", [hdr.clone(), section(3, &[1, 5]), section(10, &[1, 2, 0, 0x0b])].concat()),
            ("local declarations whose counts sum to more than u32::MAX", [hdr.clone(), section(1, &[1, 0x60, 0, 0]), section(3, &[1, 0]), section(10, &[1, 14, 2, 0xff, 0xff, 0xff, 0xff, 0x0f, 0x7f, 0xff, 0xff, 0xff, 0xff, 0x0f, 0x7f, 0x0b])].concat()),
            ("function whose type index names an array type", [hdr.clone(), section(1, &[1, 0x5e, 0x7f, 0]), section(3, &[1, 0]), section(10, &[1, 2, 0, 0x0b])].concat()),
        ];
        for (what, bytes) in cases {
            let valid = wasmparser::validate(&bytes).is_ok();
            let r = catch_unwind(AssertUnwindSafe(|| Module::parse(&bytes, false).map(|_| ())));
            println!("  {:<55} validates={:<5} parse: {}", what, valid, match r { Ok(Ok(())) => "Ok".to_string(), Ok(Err(e)) => format!("Err({})", e).chars().take(60).collect(), Err(_) => "PANIC".to_string() });
        }
    });
    run("S20 Component::parse on truncated / crafted components (C03)", || {
        let hdr: Vec<u8> = vec![0, 0x61, 0x73, 0x6d, 0x0d, 0, 1, 0];
        let cases: Vec<(&str, Vec<u8>)> = vec![
            ("core module section longer than the input", [hdr.clone(), vec![1, 100, 0, 0x61, 0x73, 0x6d, 1, 0, 0, 0]].concat()),
            ("nested component section longer than the input", [hdr.clone(), vec![4, 100, 0, 0x61, 0x73, 0x6d, 0x0d, 0, 1, 0]].concat()),
            ("empty input", vec![]),
            ("header only", hdr.clone()),
        ];
        for (what, bytes) in cases {
            let r = catch_unwind(AssertUnwindSafe(|| wirm::Component::parse(&bytes, false).map(|_| ())));
            println!("  {:<55} parse: {}", what, match r { Ok(Ok(())) => "Ok".to_string(), Ok(Err(e)) => format!("Err({})", e).chars().take(70).collect(), Err(_) => "PANIC".to_string() });
        }
    });
    run("S21 function-exit probe + block-alternate on a block that contains `return` (C17 / C21)", || {
        // expected: the replaced block is gone INCLUDING everything planned on its instructions; the exit probe (i32.const 99; drop)
        // appears only where the function really exits
        let w = wat::parse_str(r#"(module (func (param i32) local.get 0 if block return end end i32.const 5 drop))"#).unwrap();
        let mut m = Module::parse(&w, false).unwrap();
        {
            let mut fm = m.functions.get_fn_modifier(FunctionID(0)).unwrap();
            // function-level exit probe
            fm.func_exit();
            fm.i32_const(99);
            fm.drop();
            fm.finish_instr();
            // replace the inner `block` (instruction 2) by `nop`
            fm.inject_at(2, InstrumentationMode::BlockAlt, wasmparser::Operator::Nop);
        }
        let b = m.encode();
        println!("validates: {}", wasmparser::validate(&b).is_ok());
        show("S21", &b);
    });
    run("S22 component round trip at nesting depth 3 (C27)", || {
        for src in [
            r#"(component (core module $a (func)) (component $c1 (core module $b (func nop)) (component $c2 (core module $d (func nop nop))) (core module $e (func nop nop nop))) (core module $f (func)))"#,
            r#"(component (component $c1 (component $c2 (component $c3 (core module (func)))) (core module (func nop))) (core module (func nop nop)))"#,
        ] {
            let w = wat::parse_str(src).unwrap();
            println!("input validates: {}", wasmparser::Validator::new_with_features(wasmparser::WasmFeatures::all()).validate_all(&w).is_ok());
            let r = catch_unwind(AssertUnwindSafe(|| { let mut c = wirm::Component::parse(&w, false).unwrap(); c.encode() }));
            match r {
                Ok(out) => {
                    let a = wasmprinter::print_bytes(&w).unwrap(); let b = wasmprinter::print_bytes(&out).unwrap_or_else(|e| format!("<unprintable: {}>", e));
                    println!("same text: {}  output validates: {}", a == b, wasmparser::Validator::new_with_features(wasmparser::WasmFeatures::all()).validate_all(&out).is_ok());
                    if a != b { println!("--- in\n{}\n--- out\n{}", a, b); }
                }
                Err(_) => println!("PANIC"),
            }
        }
    });
    run("S23 side effects: a tagged import that was deleted again (C23)", || {
        use wirm::ir::module::side_effects::InjectType;
        let w = wat::parse_str(r#"(module (func))"#).unwrap();
        let mut m = Module::parse(&w, false).unwrap();
        let ty = m.types.add_func_type(&[], &[], None);
        let (fid, _iid) = m.add_import_func_with_tag("env".into(), "gone".into(), ty, wirm::ir::types::Tag::new(vec![1, 2, 3]));
        m.delete_func(fid);
        let (_f2, _i2) = m.add_import_func_with_tag("env".into(), "kept".into(), ty, wirm::ir::types::Tag::new(vec![4]));
        let se = m.pull_side_effects();
        let n = se.get(&InjectType::Import).map(|v| v.len()).unwrap_or(0);
        println!("import records: {} (expected 1: only `kept` is in the encoded module)", n);
        show("S23", &m.encode());
    });
    run("S24 element segment in expression form after adding an imported function (C06)", || {
        // expected: the element still designates $f (now function 1)
        let w = wat::parse_str(r#"(module (table 1 funcref) (func $f) (elem (i32.const 0) funcref (ref.func $f)) (export "f" (func $f)))"#).unwrap();
        let mut m = Module::parse(&w, false).unwrap();
        let ty = m.types.add_func_type(&[], &[], None);
        m.add_import_func("env".into(), "imp".into(), ty);
        let b = m.encode();
        println!("validates: {}", wasmparser::validate(&b).is_ok());
        show("S24", &b);
    });
    run("S25 finish_component after an import was added to that module (C12)", || {
        let w = wat::parse_str(r#"(component (core module (func)))"#).unwrap();
        let mut c = wirm::Component::parse(&w, false).unwrap();
        let ty = c.modules[0].types.add_func_type(&[], &[], None);
        c.modules[0].add_import_func("env".into(), "imp".into(), ty);
        let mut fb = FunctionBuilder::new(&[], &[]);
        fb.nop();
        let r = catch_unwind(AssertUnwindSafe(move || { let id = fb.finish_component(&mut c, ModuleID(0)); (id, c.encode()) }));
        match r { Ok((id, b)) => { println!("built function id {:?}", id); println!("{}", wasmprinter::print_bytes(&b).unwrap()); }, Err(_) => println!("finish_component PANICKED") }
    });
    run("S26 component iterator: start state, components without work at the front, reset (C26)", || {
        use wirm::iterator::component_iterator::ComponentIterator;
        use std::collections::HashMap;
        fn visit(it: &mut ComponentIterator) -> Vec<String> {
            let mut v = vec![];
            loop { if it.curr_op().is_some() { let (loc, _) = it.curr_loc(); v.push(format!("{:?}", loc)); } if it.next().is_none() { break; } }
            v
        }
        // (a) no core module at all
        let w = wat::parse_str(r#"(component)"#).unwrap();
        let r = catch_unwind(AssertUnwindSafe(|| { let mut c = wirm::Component::parse(&w, false).unwrap(); let mut it = ComponentIterator::new(&mut c, HashMap::new()); it.curr_op().is_none() }));
        println!("(a) component without modules: {:?}", r.map_err(|_| "PANIC"));
        // (b) the first module has no function
        let w = wat::parse_str(r#"(component (core module (memory 1)) (core module (func nop)))"#).unwrap();
        let r = catch_unwind(AssertUnwindSafe(|| { let mut c = wirm::Component::parse(&w, false).unwrap(); let mut it = ComponentIterator::new(&mut c, HashMap::new()); visit(&mut it) }));
        println!("(b) first module without functions: {:?} (expected the 2 instructions of module 1)", r.map_err(|_| "PANIC"));
        // (c) reset after a traversal that ended in a module with a skip list
        let w = wat::parse_str(r#"(component (core module (func nop) (func nop nop)) (core module (func nop) (func nop nop nop)))"#).unwrap();
        let r = catch_unwind(AssertUnwindSafe(|| {
            let mut c = wirm::Component::parse(&w, false).unwrap();
            let mut skip = HashMap::new(); skip.insert(ModuleID(1), vec![FunctionID(0)]);
            let mut it = ComponentIterator::new(&mut c, skip);
            let first = visit(&mut it); it.reset(); let second = visit(&mut it);
            (first.len(), second.len(), first == second)
        }));
        println!("(c) traversal, reset, traversal: {:?} (expected equal lengths, same)", r.map_err(|_| "PANIC"));
    });
    run("S27 code entry with local groups whose counts sum past u32::MAX (C03)", || {
        // (module (type (func)) (func (type 0) (local 0xFFFFFFFF x i32) (local 0xFFFFFFFF x i32)))
        let mut m: Vec<u8> = vec![0x00, 0x61, 0x73, 0x6d, 0x01, 0x00, 0x00, 0x00];
        m.extend_from_slice(&[0x01, 0x04, 0x01, 0x60, 0x00, 0x00]);           // type section: one func type () -> ()
        m.extend_from_slice(&[0x03, 0x02, 0x01, 0x00]);                       // function section: one function of type 0
        let body: Vec<u8> = vec![0x02, 0xff, 0xff, 0xff, 0xff, 0x0f, 0x7f, 0xff, 0xff, 0xff, 0xff, 0x0f, 0x7f, 0x0b];
        let mut code = vec![0x01, body.len() as u8]; code.extend_from_slice(&body);
        m.push(0x0a); m.push(code.len() as u8); m.extend_from_slice(&code);
        let r = catch_unwind(AssertUnwindSafe(|| Module::parse(&m, false).map(|_| ()).map_err(|e| format!("{:?}", e))));
        println!("parse: {:?} (expected Ok or Err, never a panic)", r.map_err(|_| "PANIC"));
    });
    run("S28 special instrumentation on the first local function after an imported function was deleted (C17 / C09)", || {
        // expected: the entry probe (i32.const 77; drop) is the first code of the first local function, whatever happened to the imports
        let w = wat::parse_str(r#"(module (import "a" "f0" (func)) (import "a" "f1" (func)) (func $l0 nop) (func $l1 nop nop))"#).unwrap();
        for delete_import in [false, true] {
            let mut m = Module::parse(&w, false).unwrap();
            if delete_import { m.delete_func(FunctionID(0)); }
            {
                let mut fm = m.functions.get_fn_modifier(FunctionID(2)).unwrap();
                fm.func_entry();
                fm.i32_const(77);
                fm.drop();
                fm.finish_instr();
            }
            let b = m.encode();
            let txt = wasmprinter::print_bytes(&b).unwrap_or_default();
            println!("import deleted: {}  validates: {}  entry probe present: {}", delete_import, wasmparser::validate(&b).is_ok(), txt.contains("i32.const 77"));
        }
    });
    run("S29 side effects: which index space the record of an added active data segment uses (C23)", || {
        use wirm::ir::module::side_effects::{InjectType, Injection};
        use wirm::ir::types::{DataSegment, DataSegmentKind, InitExpr, InitInstr, Tag};
        // one local memory (the caller's MemoryID 0) and one local global (the caller's GlobalID 0); then an imported memory and an
        // imported global are added (both locals move to index 1 in the encoded module); then a tagged active segment is added to
        // "memory 0" at offset "global.get 0".  expected: the record names memory 1 and global.get 1, like the encoded module
        let build = || {
            let w: &'static [u8] = Box::leak(wat::parse_str(r#"(module (memory 1) (global i32 (i32.const 8)))"#).unwrap().into_boxed_slice());
            let mut m = Module::parse(w, false).unwrap();
            m.add_import_memory("env".into(), "mem".into(), wasmparser::MemoryType { memory64: false, shared: false, initial: 1, maximum: None, page_size_log2: None });
            m.add_imported_global("env".into(), "g".into(), wirm::DataType::I32, false, false);
            m.add_data(DataSegment { kind: DataSegmentKind::Active { memory_index: 0, offset_expr: InitExpr::new(vec![InitInstr::Global(wirm::ir::id::GlobalID(0))]) }, data: vec![1, 2, 3], tag: Some(Tag::new(vec![9])) });
            m
        };
        let se = build().pull_side_effects();
        for r in se.get(&InjectType::Data).map(|v| v.as_slice()).unwrap_or(&[]) {
            if let Injection::ActiveData { memory_index, offset_expr, .. } = r {
                println!("record: memory_index {} offset {:?}", memory_index, offset_expr.exprs);
            }
        }
        show("S29", &build().encode());
    });
    run("S30 side effects: index space of the code bodies in probe records (C23)", || {
        use wirm::ir::module::side_effects::{InjectType, Injection};
        // local functions $a (FunctionID 0) and $b (FunctionID 1); an imported function is added (both move up by one in the encoded module);
        // probes that call $a are put into $b: before instruction 0, at function entry, and as block-entry of a block.
        // expected: every record body says `call 1` (= $a in the encoded module), like the encoded code
        let w = wat::parse_str(r#"(module (func $a) (func $b block nop end))"#).unwrap();
        let mut m = Module::parse(&w, false).unwrap();
        let ty = m.types.add_func_type(&[], &[], None);
        m.add_import_func("env".into(), "imp".into(), ty);
        {
            let mut fm = m.functions.get_fn_modifier(FunctionID(1)).unwrap();
            fm.before_at(wirm::ir::types::Location::Module { func_idx: FunctionID(1), instr_idx: 1 });
            fm.call(FunctionID(0));
            fm.finish_instr();
            fm.func_entry();
            fm.call(FunctionID(0));
            fm.finish_instr();
            fm.inject_at(0, InstrumentationMode::BlockEntry, wasmparser::Operator::Call { function_index: 0 });
        }
        let se = m.pull_side_effects();
        for r in se.get(&InjectType::Probe).map(|v| v.as_slice()).unwrap_or(&[]) {
            match r {
                Injection::FuncProbe { target_fid, mode, body, .. } => println!("FuncProbe target_fid {} mode {:?} body {:?}", target_fid, mode, body),
                Injection::FuncLocProbe { target_fid, target_opcode_idx, mode, body, .. } => println!("FuncLocProbe target_fid {} at {} mode {:?} body {:?}", target_fid, target_opcode_idx, mode, body),
                _ => {}
            }
        }
    });
    run("S32 side effects: after-code put on a function's final `end` (never emitted) - which index space does its record use? (C23)", || {
        use wirm::ir::module::side_effects::{InjectType, Injection};
        // local functions $a (FunctionID 0) and $b (FunctionID 1: `nop; end`); an imported function is added (both move up by one);
        // `call $a` is put AFTER the final end of $b (instruction 1) and, for comparison, BEFORE it
        let w = wat::parse_str(r#"(module (func $a) (func $b nop))"#).unwrap();
        let mut m = Module::parse(&w, false).unwrap();
        let ty = m.types.add_func_type(&[], &[], None);
        m.add_import_func("env".into(), "imp".into(), ty);
        {
            let mut fm = m.functions.get_fn_modifier(FunctionID(1)).unwrap();
            fm.after_at(wirm::ir::types::Location::Module { func_idx: FunctionID(1), instr_idx: 1 });
            fm.call(FunctionID(0));
            fm.finish_instr();
            fm.before_at(wirm::ir::types::Location::Module { func_idx: FunctionID(1), instr_idx: 1 });
            fm.call(FunctionID(0));
            fm.finish_instr();
        }
        let se = m.pull_side_effects();
        for r in se.get(&InjectType::Probe).map(|v| v.as_slice()).unwrap_or(&[]) {
            if let Injection::FuncLocProbe { target_fid, target_opcode_idx, mode, body, .. } = r { println!("FuncLocProbe target_fid {} at {} mode {:?} body {:?}", target_fid, target_opcode_idx, mode, body); }
        }
        show("S32", &m.encode());
    });
    run("S31 a module with a continuation type (stack-switching proposal): parse, then encode (C01)", || {
        let w = wat::parse_str(r#"(module (type $ft (func)) (type $ct (cont $ft)))"#).unwrap();
        println!("input validates (all features): {}", wasmparser::Validator::new_with_features(wasmparser::WasmFeatures::all()).validate_all(&w).is_ok());
        let r = catch_unwind(AssertUnwindSafe(|| { let mut m = Module::parse(&w, false).unwrap(); m.encode() }));
        match r {
            Ok(b) => { println!("output validates: {}", wasmparser::Validator::new_with_features(wasmparser::WasmFeatures::all()).validate_all(&b).is_ok()); show("S31", &b); }
            Err(_) => println!("PANIC in encode"),
        }
    });
}
