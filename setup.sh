#!/bin/sh
# setup_cmd: builds, offline, everything the checks need that does not depend on /repo's sources:
#   build/vdeps  - wasmparser / wasm-encoder / log rlibs compiled with Verus's pinned toolchain, so
#                  extracted units type-check against the real dependency types.
# Nothing is fetched. Safe to re-run.
set -e
cd "$(dirname "$0")"
export CARGO_NET_OFFLINE=true
TC=1.98.1-x86_64-unknown-linux-gnu
mkdir -p build/vdeps/src evidence
: > build/vdeps/src/lib.rs
cp /repo/Cargo.lock build/vdeps/Cargo.lock
cat > build/vdeps/Cargo.toml <<'EOF'
[package]
name = "vdeps"
version = "0.0.0"
edition = "2021"
[dependencies]
wasmparser = "0.235.0"
wasm-encoder = { version = "0.235.0", features = ["wasmparser"] }
log = "0.4.22"
[workspace]
EOF
(cd build/vdeps && cargo +$TC build --offline -q 2>&1 | tail -5)
ls build/vdeps/target/debug/deps/libwasmparser-*.rlib build/vdeps/target/debug/deps/libwasm_encoder-*.rlib >/dev/null
# warm the verus cache (first run is slow)
printf 'use vstd::prelude::*;\nverus!{ proof fn t() ensures 1+1==2int {} }\nfn main(){}\n' > build/warm.rs
verus build/warm.rs >/dev/null 2>&1 || { echo "verus does not run"; exit 1; }
rm -f build/warm.rs
echo "verus ok"
# warm the Kani build of /repo (dependency artifacts; the crate itself is rebuilt by every check) and the replay crate
( cd /repo && CARGO_TARGET_DIR=/verif/build/kani-target RUSTFLAGS="--cfg wirm_verif" timeout 1500 cargo kani --exact --harness verif_kani::k0_smoke --output-format terse >/dev/null 2>&1 ) || echo "warning: kani warm-up failed"
( cd /verif/replay && CARGO_TARGET_DIR=/verif/build/replay-target RUSTFLAGS="--cfg wirm_verif" cargo build --offline -q >/dev/null 2>&1 ) || echo "warning: replay crate warm-up failed"
echo "setup complete"
