// Verified spike (verus 0.2026.09.13): for-loop over an iterator *parameter*.
// Needed preconditions: obeys_prophetic_iter_laws(), decrease() is Some; contents via remaining();
// loop position via it.index@ ; function preconditions must be restated in the loop invariant.
use vstd::prelude::*;
use vstd::std_specs::iter::IteratorSpec;
use std::vec::IntoIter;
verus! {
fn f2(it0: IntoIter<u32>) -> (r: Vec<u32>)
    requires it0.obeys_prophetic_iter_laws(), it0.decrease() is Some, it0.remaining().len() <= usize::MAX,
    ensures r@ == it0.remaining(),
{
    let mut out: Vec<u32> = Vec::new();
    let mut idx: usize = 0;
    for x in it: it0
        invariant
            idx == it.index@, idx <= it0.remaining().len(), it0.remaining().len() <= usize::MAX,
            out@ == it0.remaining().take(idx as int),
    {
        out.push(x);
        idx += 1;
    }
    out
}
}
fn main() {}
