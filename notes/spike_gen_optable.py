import re,glob
W=glob.glob('/root/.cargo/registry/src/*/wasmparser-0.235.0')[0]
s=open(W+"/src/lib.rs").read()
i=s.index("macro_rules! _for_each_operator_group"); j=s.index("macro_rules!",i+10)
ops=re.findall(r'^\s+(\w+)(?: \{([^}]*)\})? => (visit_\w+)', s[i:j], re.M)
def fields(f): return [x.strip().split(':')[0].strip() for x in f.split(',') if x.strip()]
mem=[];
out=["pub open spec fn mem_refs(op: Operator) -> Seq<u32> {\n    match op {"]
w=["pub open spec fn with_mem_refs(op: Operator, f: spec_fn(u32) -> u32) -> Operator {\n    match op {"]
for n,f,v in ops:
    fl=fields(f)
    if 'memarg' in fl:
        others=[x for x in fl if x!='memarg']
        pat="Operator::%s { %s }"%(n,", ".join(fl))
        out.append("        %s => seq![memarg.memory],"%pat)
        w.append("        %s => Operator::%s { memarg: wasmparser::MemArg { align: memarg.align, max_align: memarg.max_align, offset: memarg.offset, memory: f(memarg.memory) }%s },"%(pat,n,"".join(", "+o for o in others)))
    elif 'src_mem' in fl:
        out.append("        Operator::%s { dst_mem, src_mem } => seq![dst_mem, src_mem],"%n)
        w.append("        Operator::%s { dst_mem, src_mem } => Operator::%s { dst_mem: f(dst_mem), src_mem: f(src_mem) },"%(n,n))
    elif 'mem' in fl:
        others=[x for x in fl if x!='mem']
        pat="Operator::%s { %s }"%(n,", ".join(fl))
        out.append("        %s => seq![mem],"%pat)
        w.append("        %s => Operator::%s { mem: f(mem)%s },"%(pat,n,"".join(", "+o for o in others)))
out.append("        _ => Seq::empty(),\n    }\n}")
w.append("        _ => op,\n    }\n}")
open('optable.rs','w').write("\n".join(out)+"\n\n"+"\n".join(w)+"\n")
print(len(out)-2)
