use vstd::prelude::*;
use vstd::std_specs::iter::IteratorSpec;
use std::vec::IntoIter;
verus! {

pub(crate) trait ReIndexable<T> {
    spec fn view(&self) -> Seq<T>;
    fn len(&self) -> (r: usize) ensures r == self.view().len();
    fn remove(&mut self, id: u32) -> (r: T)
        requires (id as int) < old(self).view().len()
        ensures final(self).view() == old(self).view().remove(id as int), r == old(self).view()[id as int];
    fn insert(&mut self, id: u32, val: T)
        requires (id as int) <= old(self).view().len()
        ensures final(self).view() == old(self).view().insert(id as int, val);
    fn push(&mut self, item: T)
        ensures final(self).view() == old(self).view().push(item);
}

pub trait LocalOrImport {
    spec fn s_local(&self) -> bool;
    spec fn s_deleted(&self) -> bool;
    fn is_local(&self) -> (r: bool) ensures r == self.s_local();
    fn is_import(&self) -> (r: bool) ensures r == !self.s_local();
    fn is_deleted(&self) -> (r: bool) ensures r == self.s_deleted();
}

pub open spec fn sel<T>(s: Seq<T>, p: spec_fn(T) -> bool) -> Seq<T>
    decreases s.len()
{
    if s.len() == 0 { Seq::empty() }
    else {
        let r = sel(s.drop_last(), p);
        if p(s.last()) { r.push(s.last()) } else { r }
    }
}

pub proof fn lemma_sel_push<T>(s: Seq<T>, x: T, p: spec_fn(T) -> bool)
    ensures sel(s.push(x), p) == if p(x) { sel(s, p).push(x) } else { sel(s, p) },
{
    assert(s.push(x).drop_last() == s);
}

pub proof fn lemma_sel_len<T>(s: Seq<T>, p: spec_fn(T) -> bool)
    ensures sel(s, p).len() <= s.len(),
    decreases s.len()
{
    if s.len() > 0 { lemma_sel_len(s.drop_last(), p); }
}

pub open spec fn p_k<T: LocalOrImport>() -> spec_fn(T) -> bool { |x: T| !x.s_local() && !x.s_deleted() }
pub open spec fn p_dm<T: LocalOrImport>() -> spec_fn(T) -> bool { |x: T| x.s_local() && !x.s_deleted() }
pub open spec fn p_m<T: LocalOrImport>() -> spec_fn(T) -> bool { |x: T| !x.s_local() && !x.s_deleted() }
pub open spec fn p_lk<T: LocalOrImport>() -> spec_fn(T) -> bool { |x: T| x.s_local() && !x.s_deleted() }

pub open spec fn carve<T: LocalOrImport>(r: Seq<T>, n0: int) -> bool {
    &&& forall|i: int| 0 <= i < n0 && i < r.len() ==> !(#[trigger] r[i].s_local() && r[i].s_deleted())
    &&& forall|i: int| n0 <= i < r.len() ==> !(!(#[trigger] r[i].s_local()) && r[i].s_deleted())
}

pub open spec fn phase1<T: LocalOrImport>(r: Seq<T>, idx: int) -> Seq<T> {
    sel(r.take(idx), p_k::<T>()) + r.skip(idx) + sel(r.take(idx), p_dm::<T>())
}
pub open spec fn phase2<T: LocalOrImport>(r: Seq<T>, n0: int, idx: int) -> Seq<T> {
    sel(r.take(n0), p_k::<T>()) + sel(r.subrange(n0, idx), p_m::<T>()) + sel(r.subrange(n0, idx), p_lk::<T>())
        + r.skip(idx) + sel(r.take(n0), p_dm::<T>())
}


pub proof fn lemma_p1_step<T: LocalOrImport>(r: Seq<T>, idx: int)
    requires 0 <= idx < r.len(), !(r[idx].s_local() && r[idx].s_deleted()),
    ensures
        ({
            let a = sel(r.take(idx), p_k::<T>());
            let x = r[idx];
            &&& a.len() <= idx
            &&& phase1(r, idx)[a.len() as int] == x
            &&& a.len() < phase1(r, idx).len()
            &&& x.s_local() ==> phase1(r, idx).remove(a.len() as int).push(x) == phase1(r, idx + 1)
            &&& (!x.s_local() && x.s_deleted()) ==> phase1(r, idx).remove(a.len() as int) == phase1(r, idx + 1)
            &&& (!x.s_local() && !x.s_deleted()) ==> phase1(r, idx) == phase1(r, idx + 1)
            &&& sel(r.take(idx + 1), p_k::<T>()).len() == a.len() + (if !x.s_local() && !x.s_deleted() { 1int } else { 0int })
        }),
{
    let a = sel(r.take(idx), p_k::<T>());
    let d = sel(r.take(idx), p_dm::<T>());
    let x = r[idx];
    lemma_sel_len(r.take(idx), p_k::<T>());
    assert(r.take(idx + 1) =~= r.take(idx).push(x));
    lemma_sel_push(r.take(idx), x, p_k::<T>());
    lemma_sel_push(r.take(idx), x, p_dm::<T>());
    let l = phase1(r, idx);
    assert(r.skip(idx) =~= seq![x] + r.skip(idx + 1));
    assert(l =~= a + (seq![x] + r.skip(idx + 1)) + d);
    assert(l[a.len() as int] == x);
    if x.s_local() {
        assert(l.remove(a.len() as int).push(x) =~= a + r.skip(idx + 1) + d.push(x));
    } else if x.s_deleted() {
        assert(l.remove(a.len() as int) =~= a + r.skip(idx + 1) + d);
    } else {
        assert(l =~= a.push(x) + r.skip(idx + 1) + d);
    }
}

pub proof fn lemma_p2_step<T: LocalOrImport>(r: Seq<T>, n0: int, idx: int)
    requires 0 <= n0 <= idx < r.len(), !(!r[idx].s_local() && r[idx].s_deleted()),
    ensures
        ({
            let k = sel(r.take(n0), p_k::<T>());
            let m = sel(r.subrange(n0, idx), p_m::<T>());
            let lk = sel(r.subrange(n0, idx), p_lk::<T>());
            let x = r[idx];
            let pos = (k.len() + m.len() + lk.len()) as int;
            let l = phase2(r, n0, idx);
            &&& k.len() <= n0
            &&& m.len() + lk.len() <= idx - n0
            &&& pos < l.len()
            &&& l[pos] == x
            &&& !x.s_local() ==> l.remove(pos).insert((k.len() + m.len()) as int, x) == phase2(r, n0, idx + 1)
            &&& (x.s_local() && x.s_deleted()) ==> l.remove(pos) == phase2(r, n0, idx + 1)
            &&& (x.s_local() && !x.s_deleted()) ==> l == phase2(r, n0, idx + 1)
            &&& sel(r.subrange(n0, idx + 1), p_m::<T>()).len() == m.len() + (if !x.s_local() { 1int } else { 0int })
            &&& sel(r.subrange(n0, idx + 1), p_lk::<T>()).len() == lk.len() + (if x.s_local() && !x.s_deleted() { 1int } else { 0int })
        }),
{
    let k = sel(r.take(n0), p_k::<T>());
    let dm = sel(r.take(n0), p_dm::<T>());
    let p = r.subrange(n0, idx);
    let m = sel(p, p_m::<T>());
    let lk = sel(p, p_lk::<T>());
    let x = r[idx];
    lemma_sel_len(r.take(n0), p_k::<T>());
    lemma_sel_disjoint_len(p);
    assert(r.subrange(n0, idx + 1) =~= p.push(x));
    lemma_sel_push(p, x, p_m::<T>());
    lemma_sel_push(p, x, p_lk::<T>());
    let l = phase2(r, n0, idx);
    let rest = r.skip(idx + 1);
    assert(r.skip(idx) =~= seq![x] + rest);
    assert(l =~= k + m + lk + (seq![x] + rest) + dm);
    let pos = (k.len() + m.len() + lk.len()) as int;
    assert(l[pos] == x);
    if !x.s_local() {
        assert(l.remove(pos).insert((k.len() + m.len()) as int, x) =~= k + m.push(x) + lk + rest + dm);
    } else if x.s_deleted() {
        assert(l.remove(pos) =~= k + m + lk + rest + dm);
    } else {
        assert(l =~= k + m + lk.push(x) + rest + dm);
    }
}

pub proof fn lemma_sel_disjoint_len<T: LocalOrImport>(p: Seq<T>)
    ensures sel(p, p_m::<T>()).len() + sel(p, p_lk::<T>()).len() <= p.len(),
    decreases p.len()
{
    if p.len() > 0 {
        lemma_sel_disjoint_len(p.drop_last());
    }
}

pub proof fn lemma_phase_boundary<T: LocalOrImport>(r: Seq<T>, n0: int)
    requires 0 <= n0 <= r.len(),
    ensures phase1(r, n0) == phase2(r, n0, n0),
{
    assert(r.subrange(n0, n0) =~= Seq::<T>::empty());
    assert(phase1(r, n0) =~= phase2(r, n0, n0));
}

    pub(crate) fn reorganise_generic<T: LocalOrImport, U: ReIndexable<T>>(
        orig_num_imported: u32,
        items: &mut U,
        items_read_only: IntoIter<T>,
    )
        requires
            items_read_only.obeys_prophetic_iter_laws(), items_read_only.decrease() is Some,
            items_read_only.remaining() == old(items).view(),
            old(items).view().len() <= u32::MAX,
            orig_num_imported <= old(items).view().len(),
            carve(old(items).view(), orig_num_imported as int),
        ensures
            final(items).view() == phase2(old(items).view(), orig_num_imported as int, old(items).view().len() as int),
    {
        // Location where we may have to move an import (converted from local) to
        let mut num_imported = orig_num_imported;
        let mut num_deleted = 0;
        let ghost r = items.view();
        let ghost n0 = orig_num_imported as int;
        proof {
            assert(r.take(0) =~= Seq::<T>::empty());
            assert(r.skip(0) =~= r);
            assert(phase1(r, 0) =~= r);
        }

        // Iterate over cloned list
        let mut __n: usize = 0;
        for val in it: items_read_only
            invariant
                __n == it.index@, __n <= r.len(), r.len() <= u32::MAX, n0 == orig_num_imported, n0 <= r.len(),
                items_read_only.remaining() == r, carve(r, n0),
                num_deleted <= __n,
                __n <= n0 ==> (items.view() == phase1(r, __n as int)
                    && num_deleted == __n - sel(r.take(__n as int), p_k::<T>()).len()
                    && num_imported == n0 - num_deleted),
                __n >= n0 ==> (items.view() == phase2(r, n0, __n as int)
                    && num_imported == sel(r.take(n0), p_k::<T>()).len() + sel(r.subrange(n0, __n as int), p_m::<T>()).len()
                    && num_deleted == (n0 - sel(r.take(n0), p_k::<T>()).len())
                        + ((__n - n0) - sel(r.subrange(n0, __n as int), p_m::<T>()).len() - sel(r.subrange(n0, __n as int), p_lk::<T>()).len())),
        {
            let idx = __n; __n += 1;
            proof {
                assert(val == r[idx as int]);
                if idx < n0 { lemma_p1_step(r, idx as int); if idx + 1 == n0 { lemma_phase_boundary(r, n0); } }
                else { if idx == n0 { lemma_phase_boundary(r, n0); } lemma_p2_step(r, n0, idx as int); }
            }
            // If the index is less than < imported
            if idx < orig_num_imported as usize {
                // If it is a local, that means it was an import before
                if val.is_local() {
                    let f = items.remove((idx - num_deleted) as u32);
                    items.push(f);
                    // decrement as this is the place where we might have to move an import to
                    num_imported -= 1;
                    // We update it here for the following case. A , B. A is moved to a position later than B, indices will reduce by 1 and we need the offset
                    num_deleted += 1;
                } else if val.is_deleted() {
                    // If val was import but was deleted
                    items.remove((idx - num_deleted) as u32);
                    num_imported -= 1;
                    num_deleted += 1;
                }
            } else {
                // If it's an import, was a local before
                if val.is_import() {
                    let i = items.remove((idx - num_deleted) as u32);
                    items.insert(num_imported, i);
                    // increment as this is the place where we might have to move an import to
                    num_imported += 1;
                    // We do not update it here for the following case. A , B. A is moved to a position earlier than B, indices will not change and hence no need to update
                    // num_deleted += 1;
                }
                // If val was local but was deleted
                else if val.is_deleted() {
                    items.remove((idx - num_deleted) as u32);
                    num_deleted += 1;
                }
            }
        }
    }

} // verus!
fn main() {}
