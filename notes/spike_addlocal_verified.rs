use vstd::prelude::*;
verus! {

#[derive(Debug, Clone, Eq, Hash, PartialEq, Copy, Structural)]
pub enum DataType {
    I8,
    I16,
    I32,
    I64,
    Module { ty_id: u32, nullable: bool },
    RecGroup(u32),
}

#[derive(Clone, Copy, Debug, Eq, Hash, Ord, PartialEq, PartialOrd)]
pub struct LocalID(pub u32);

pub open spec fn expand(locals: Seq<(u32, DataType)>) -> Seq<DataType>
    decreases locals.len()
{
    if locals.len() == 0 { Seq::empty() }
    else { expand(locals.drop_last()) + Seq::new(locals.last().0 as nat, |i: int| locals.last().1) }
}

proof fn lemma_expand_push_new(l: Seq<(u32, DataType)>, ty: DataType)
    ensures expand(l.push((1u32, ty))) == expand(l).push(ty)
{
    let l2 = l.push((1u32, ty));
    assert(l2.drop_last() == l);
    assert(Seq::new(1nat, |i: int| ty) =~= Seq::<DataType>::empty().push(ty));
    assert(expand(l) + Seq::<DataType>::empty().push(ty) =~= expand(l).push(ty));
}

proof fn lemma_expand_bump_last(l: Seq<(u32, DataType)>, ty: DataType)
    requires l.len() > 0, l.last().1 == ty, l.last().0 < u32::MAX
    ensures expand(l.update(l.len() - 1, ((l.last().0 + 1) as u32, ty))) == expand(l).push(ty)
{
    let l2 = l.update(l.len() - 1, ((l.last().0 + 1) as u32, ty));
    assert(l2.drop_last() == l.drop_last());
    let c = l.last().0 as nat;
    assert(Seq::new(c + 1, |i: int| ty) =~= Seq::new(c, |i: int| ty).push(ty));
    assert(expand(l.drop_last()) + Seq::new(c, |i: int| ty).push(ty) =~= (expand(l.drop_last()) + Seq::new(c, |i: int| ty)).push(ty));
}

pub(crate) fn add_local(
    ty: DataType,
    num_params: usize,
    num_locals: &mut u32,
    locals: &mut Vec<(u32, DataType)>,
) -> (r: LocalID)
    requires
        expand(old(locals)@).len() == *old(num_locals),
        num_params + *old(num_locals) < u32::MAX,
    ensures
        expand(final(locals)@) == expand(old(locals)@).push(ty),
        *final(num_locals) == *old(num_locals) + 1,
        r.0 == num_params + *old(num_locals),
{
    let index = num_params + *num_locals as usize;

    let len = locals.len();
    *num_locals += 1;
    if len > 0 {
        let last = len - 1;
        if locals[last].1 == ty {
            locals[last].0 += 1;
        } else {
            locals.push((1, ty));
        }
    } else {
        // If no locals, just append
        locals.push((1, ty));
    }

    proof {
        if old(locals)@.len() > 0 && old(locals)@.last().1 == ty {
            lemma_expand_bump_last(old(locals)@, ty);
            assert(locals@ =~= old(locals)@.update(old(locals)@.len() - 1, ((old(locals)@.last().0 + 1) as u32, ty)));
        } else {
            lemma_expand_push_new(old(locals)@, ty);
            assert(locals@ =~= old(locals)@.push((1u32, ty)));
        }
    }
    LocalID(index as u32)
}

} // verus!
fn main() {}
