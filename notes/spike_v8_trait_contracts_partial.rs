use vstd::prelude::*;
use std::collections::HashMap;
use std::borrow::Cow;
use wasmparser::{ValType, Operator, TypeRef, GlobalType, MemoryType, TableType, RefType, ConstExpr, TagType, ExternalKind, PackedIndex, UnpackedIndex};
type InjectTag = Option<Tag>;
type BlockID = u32;
type InstrBody<'a> = Vec<Operator<'a>>;
verus! {
#[verifier::external_type_specification]
pub struct ExOperator<'a>(wasmparser::Operator<'a>);
#[verifier::external_type_specification]
#[verifier::external_type_specification] #[verifier::external_body] pub struct ExBrTable<'a>(wasmparser::BrTable<'a>);
#[verifier::external_type_specification] #[verifier::external_body] pub struct ExConstExpr<'a>(wasmparser::ConstExpr<'a>);
#[verifier::external_type_specification] #[verifier::external_body] pub struct ExGlobalType(wasmparser::GlobalType);
#[verifier::external_type_specification] #[verifier::external_body] pub struct ExIeee32(wasmparser::Ieee32);
#[verifier::external_type_specification] #[verifier::external_body] pub struct ExIeee64(wasmparser::Ieee64);
#[verifier::external_type_specification] #[verifier::external_body] pub struct ExIndirectNameMap(wasm_encoder::IndirectNameMap);
#[verifier::external_type_specification] #[verifier::external_body] pub struct ExMemoryType(wasmparser::MemoryType);
#[verifier::external_type_specification] #[verifier::external_body] pub struct ExNameMap(wasm_encoder::NameMap);
#[verifier::external_type_specification] #[verifier::external_body] pub struct ExPackedIndex(wasmparser::PackedIndex);
#[verifier::external_type_specification] #[verifier::external_body] pub struct ExRefType(wasmparser::RefType);
#[verifier::external_type_specification] #[verifier::external_body] pub struct ExResumeTable(wasmparser::ResumeTable);
#[verifier::external_type_specification] #[verifier::external_body] pub struct ExTableType(wasmparser::TableType);
#[verifier::external_type_specification] #[verifier::external_body] pub struct ExTagType(wasmparser::TagType);
#[verifier::external_type_specification] #[verifier::external_body] pub struct ExTryTable(wasmparser::TryTable);
#[verifier::external_type_specification] #[verifier::external_body] pub struct ExUnpackedIndex(wasmparser::UnpackedIndex);
#[verifier::external_type_specification] #[verifier::external_body] pub struct ExV128(wasmparser::V128);
#[verifier::external_type_specification] pub struct ExAbstractHeapType(wasmparser::AbstractHeapType);
#[verifier::external_type_specification] pub struct ExBlockType(wasmparser::BlockType);
#[verifier::external_type_specification] pub struct ExExternalKind(wasmparser::ExternalKind);
#[verifier::external_type_specification] pub struct ExHeapType(wasmparser::HeapType);
#[verifier::external_type_specification] pub struct ExMemArg(wasmparser::MemArg);
#[verifier::external_type_specification] pub struct ExOrdering(wasmparser::Ordering);
#[verifier::external_type_specification] pub struct ExTypeRef(wasmparser::TypeRef);
#[verifier::external_type_specification] pub struct ExValType(wasmparser::ValType);

#[derive(Clone, Copy, Debug, Eq, Hash, Ord, PartialEq, PartialOrd)]
pub struct LocalID(pub u32);

#[derive(Clone, Copy, Debug, Eq, Hash, Ord, PartialEq, PartialOrd)]
pub struct TypeID(pub u32);

#[derive(Clone, Copy, Debug, Eq, Hash, Ord, PartialEq, PartialOrd)]
pub struct ModuleID(pub u32);

#[derive(Clone, Copy, Debug, Eq, Hash, Ord, PartialEq, PartialOrd)]
pub struct FunctionID(pub u32);

#[derive(Clone, Copy, Debug, Eq, Hash, Ord, PartialEq, PartialOrd)]
pub struct DataSegmentID(pub u32);

#[derive(Clone, Copy, Debug, Eq, Hash, Ord, PartialEq, PartialOrd)]
pub struct GlobalID(pub u32);

#[derive(Clone, Copy, Debug, Eq, Hash, Ord, PartialEq, PartialOrd)]
pub struct ImportsID(pub u32);

#[derive(Clone, Copy, Debug, Eq, Hash, Ord, PartialEq, PartialOrd)]
pub struct ExportsID(pub u32);

#[derive(Clone, Copy, Debug, Eq, Hash, Ord, PartialEq, PartialOrd)]
pub struct CustomSectionID(pub u32);

#[derive(Clone, Copy, Debug, Eq, Hash, Ord, PartialEq, PartialOrd)]
pub struct TableID(pub u32);

#[derive(Clone, Copy, Debug, Eq, Hash, Ord, PartialEq, PartialOrd)]
pub struct MemoryID(pub u32);

pub struct FieldID(pub u32);

pub struct ElementID(pub u32);

#[derive(Clone, Debug, Default, Eq, Hash, PartialEq)]
pub struct Tag {
    data: Vec<u8>,
}

#[derive(Debug, Clone, Eq, Hash, PartialEq, Copy)]
pub enum DataType {
    I8,
    I16,
    I32,
    I64,
    F32,
    F64,
    V128,
    FuncRef,
    FuncRefNull,
    ExternRef,
    ExternRefNull,
    Any,
    AnyNull,
    None,
    NoneNull,
    NoExtern,
    NoExternNull,
    NoFunc,
    NoFuncNull,
    Eq,
    EqNull,
    Struct,
    StructNull,
    Array,
    ArrayNull,
    I31,
    I31Null,
    Exn,
    NoExn,
    Module { ty_id: u32, nullable: bool },
    RecGroup(u32),
    CoreTypeId(u32), // TODO: Look at this
    Cont,
    NoCont,
}

#[derive(Debug, Clone)]
pub struct DataSegment {
    pub kind: DataSegmentKind,
    pub data: Vec<u8>,
    pub tag: InjectTag,
}

#[derive(Debug, Clone)]
pub enum DataSegmentKind {
    Passive,
    Active {
        memory_index: u32,
        offset_expr: InitExpr,
    },
}

#[derive(Debug, Clone)]
pub enum ElementKind<'a> {
    Passive,
    Active {
        table_index: Option<u32>,
        offset_expr: ConstExpr<'a>,
    },
    Declared,
}

#[derive(Debug, Clone)]
pub enum ElementItems<'a> {
    Functions(Vec<FunctionID>),
    ConstExprs {
        ty: RefType,
        exprs: Vec<ConstExpr<'a>>,
    },
}

#[derive(Debug, Clone)]
pub enum FuncInstrMode {
    Entry,
    Exit,
}

#[derive(Default, Debug, Clone)]
pub struct FuncInstrFlag<'a> {
    pub has_special_instr: bool,
    pub current_mode: Option<FuncInstrMode>,
    pub entry: InjectedInstrs<'a>,
    pub exit: InjectedInstrs<'a>,
}

#[derive(Clone, Copy, Debug, Eq, Hash, PartialEq)]
pub enum InstrumentationMode {
    Before,
    After,
    Alternate,

    SemanticAfter,
    BlockEntry,
    BlockExit,
    BlockAlt,
}

#[derive(Default, Debug, Clone)]
pub struct InstrumentationFlag<'a> {
    pub current_mode: Option<InstrumentationMode>,
    pub before: InjectedInstrs<'a>,
    pub after: InjectedInstrs<'a>,
    pub alternate: Option<InjectedInstrs<'a>>,

    pub semantic_after: InjectedInstrs<'a>,
    pub block_entry: InjectedInstrs<'a>,
    pub block_exit: InjectedInstrs<'a>,
    pub block_alt: Option<InjectedInstrs<'a>>,
}

#[derive(Clone, Debug, Default, Eq, PartialEq)]
pub struct InjectedInstrs<'a> {
    pub(crate) instrs: Vec<Operator<'a>>,
    pub(crate) tag: InjectTag,
}

#[derive(Debug, Clone, Copy)]
pub enum Location {
    Component {
        mod_idx: ModuleID,
        func_idx: FunctionID,
        instr_idx: usize,
    },
    Module {
        func_idx: FunctionID,
        instr_idx: usize,
    },
}

#[derive(Debug, Default, Clone)]
pub struct Body<'a> {
    pub locals: Vec<(u32, DataType)>,
    pub num_locals: u32,
    pub instructions: Vec<Instruction<'a>>,
    pub num_instructions: usize,
    pub name: Option<String>,
}

#[derive(Debug, Clone)]
pub struct Instruction<'a> {
    pub op: Operator<'a>,
    pub instr_flag: InstrumentationFlag<'a>,
}

#[derive(Debug, Clone)]
pub struct InitExpr {
    pub exprs: Vec<InitInstr>,
}

#[derive(Debug, Copy, Clone)]
pub enum InitInstr {
    Value(Value),
    Global(GlobalID),
    RefNull(RefType),
    RefFunc(FunctionID),
    StructNew(TypeID),
    StructNewDefault(TypeID),
    ArrayNew(TypeID),
    ArrayNewDefault(TypeID),
    RefArrayFixed {
        array_type_index: u32,
        array_size: u32,
    },
    RefArrayData {
        array_type_index: u32,
        array_data_index: u32,
    },
    RefArrayElem {
        array_type_index: u32,
        array_elem_index: u32,
    },
    RefI31,
}

#[derive(Debug, Clone, Copy)]
pub enum Value {
    I32(i32),
    I64(i64),
    F32(f32),
    F64(f64),
    V128(u128),
}

#[derive(Debug, Copy, Clone, PartialEq, Eq)]
pub enum BlockType {
    Empty,
    Type(DataType),
    FuncType(TypeID),
}

#[derive(Clone, Debug, Default)]
pub struct CustomSections<'a> {
    custom_sections: Vec<CustomSection<'a>>,
}

#[derive(Clone, Debug)]
pub struct CustomSection<'a> {
    pub name: &'a str,
    pub data: std::borrow::Cow<'a, [u8]>,
}

#[derive(Clone, Debug, Default)]
pub struct RecGroup {
    pub types: Vec<TypeID>,
    pub is_explicit: bool,
}

#[derive(Clone, Debug, Eq, PartialEq, Hash)]
pub enum Types {
    FuncType {
        params: Box<[DataType]>,
        results: Box<[DataType]>,
        super_type: Option<PackedIndex>,
        is_final: bool,
        shared: bool,
        tag: InjectTag,
    },
    ArrayType {
        fields: DataType,
        mutable: bool,
        super_type: Option<PackedIndex>,
        is_final: bool,
        shared: bool,
        tag: InjectTag,
    },
    StructType {
        fields: Vec<DataType>,
        mutable: Vec<bool>,
        super_type: Option<PackedIndex>,
        is_final: bool,
        shared: bool,
        tag: InjectTag,
    },
    ContType {
        packed_index: PackedIndex,
        super_type: Option<PackedIndex>,
        is_final: bool,
        shared: bool,
        tag: InjectTag,
    },
}

#[derive(Clone, Debug, Default)]
pub struct ModuleTypes {
    pub groups: Vec<RecGroup>,
    pub types: HashMap<TypeID, Types>,
    pub types_map: HashMap<Types, TypeID>,
}

#[derive(Clone, Debug, Eq, Hash, PartialEq)]
pub enum HeapType {
    Abstract { shared: bool, ty: AbstractHeapType },
    Concrete(UnpackedIndex),
}

#[derive(Clone, Debug, Eq, Hash, PartialEq)]
pub enum AbstractHeapType {
    Func,
    Extern,
    Any,
    None,
    NoExtern,
    NoFunc,
    Eq,
    Struct,
    Array,
    I31,
    Exn,
    NoExn,
    Cont,
    NoCont,
}

#[derive(Debug, Clone)]
pub struct Import<'a> {
    pub module: &'a str,
    pub name: &'a str,
    pub ty: TypeRef,
    pub custom_name: Option<String>,
    pub(crate) deleted: bool,
    pub tag: InjectTag,
}

#[derive(Clone, Debug, Default)]
pub struct ModuleImports<'a> {
    imports: Vec<Import<'a>>,

    pub(crate) num_funcs: u32,
    pub(crate) num_funcs_added: u32,
    pub(crate) num_globals: u32,
    pub(crate) num_globals_added: u32,
    pub(crate) num_tables: u32,
    pub(crate) num_tables_added: u32,
    pub(crate) num_tags: u32,
    pub(crate) num_tags_added: u32,
    pub(crate) num_memories: u32,
    pub(crate) num_memories_added: u32,
}

#[derive(Clone, Debug)]
pub struct Function<'a> {
    pub(crate) kind: FuncKind<'a>,
    name: Option<String>,
    pub(crate) deleted: bool,
}

#[derive(Clone, Debug)]
pub enum FuncKind<'a> {
    Local(Box<LocalFunction<'a>>),
    Import(ImportedFunction),
}

#[derive(Clone, Debug)]
pub struct LocalFunction<'a> {
    pub ty_id: TypeID,
    pub func_id: FunctionID,
    pub instr_flag: FuncInstrFlag<'a>,
    pub body: Body<'a>,
    pub args: Vec<LocalID>,
    tag: InjectTag,
}

#[derive(Clone, Debug)]
pub struct ImportedFunction {
    pub import_id: ImportsID,            // Maps to location in a modules imports
    pub(crate) import_fn_id: FunctionID, // Maps to location in a modules imported functions
    pub ty_id: TypeID,
}

#[derive(Clone, Debug, Default)]
pub struct Functions<'a> {
    functions: Vec<Function<'a>>,
    pub(crate) recalculate_ids: bool,
}

#[derive(Clone, Debug)]
pub enum GlobalKind {
    Local(LocalGlobal),
    Import(ImportedGlobal),
}

#[derive(Clone, Debug)]
pub struct LocalGlobal {
    pub global_id: GlobalID,
    pub ty: GlobalType,
    pub init_expr: InitExpr,
}

#[derive(Clone, Debug)]
pub struct ImportedGlobal {
    pub import_id: ImportsID, // Maps to location in a modules imports
    pub(crate) import_global_id: GlobalID, // Maps to location in a modules imported globals
    pub ty: GlobalType,
}

#[derive(Debug, Clone)]
pub struct Global {
    pub(crate) kind: GlobalKind,
    pub(crate) deleted: bool,
    pub tag: InjectTag,
}

#[derive(Clone, Debug, Default)]
pub struct ModuleGlobals {
    globals: Vec<Global>,
    pub(crate) recalculate_ids: bool,
}

#[allow(dead_code)]
#[derive(Clone, Debug, Default)]
pub struct Memories {
    memories: Vec<Memory>,
    pub(crate) recalculate_ids: bool,
}

#[derive(Clone, Debug)]
pub struct Memory {
    pub ty: MemoryType,
    pub(crate) kind: MemKind,
    pub(crate) deleted: bool,
    pub tag: InjectTag,
}

#[derive(Clone, Debug)]
pub enum MemKind {
    Local(LocalMemory),
    Import(ImportedMemory),
}

#[derive(Clone, Debug)]
pub struct LocalMemory {
    pub mem_id: MemoryID,
}

#[derive(Clone, Debug)]
pub struct ImportedMemory {
    pub import_id: ImportsID,           // Maps to location in a module's imports
    pub(crate) import_mem_id: MemoryID, // Maps to location in a module's imported memories
}

#[derive(Clone, Debug, Default)]
pub struct ModuleTables<'a> {
    tables: Vec<Table<'a>>,
}

#[derive(Clone, Debug)]
pub struct Table<'a> {
    pub ty: TableType,
    pub init_expr: Option<wasmparser::ConstExpr<'a>>,
    tag: InjectTag,
}

#[derive(Clone, Debug)]
pub struct Element<'a> {
    pub kind: ElementKind<'a>,
    pub items: ElementItems<'a>,
    tag: InjectTag,
}

#[derive(Debug, Clone)]
pub struct Export {
    pub name: String,
    pub kind: ExternalKind,
    pub index: u32,
    pub(crate) deleted: bool,
    pub tag: InjectTag,
}

#[derive(Clone, Debug, Default)]
pub struct ModuleExports {
    exports: Vec<Export>,
}

#[derive(Debug)]
pub struct Module<'a> {
    pub module_name: Option<String>,
    pub types: ModuleTypes,
    pub imports: ModuleImports<'a>,
    pub functions: Functions<'a>,
    pub tables: ModuleTables<'a>,
    pub memories: Memories,
    pub globals: ModuleGlobals,
    pub data: Vec<DataSegment>,
    data_count_section_exists: bool,
    pub exports: ModuleExports,
    pub start: Option<FunctionID>,
    pub elements: Vec<Element<'a>>,
    pub tags: Vec<TagType>,
    pub custom_sections: CustomSections<'a>,
    pub(crate) num_local_functions: u32,
    pub(crate) num_local_globals: u32,
    #[allow(dead_code)]
    pub(crate) num_local_tables: u32,
    #[allow(dead_code)]
    pub(crate) num_local_memories: u32,

    pub(crate) local_names: wasm_encoder::IndirectNameMap,
    pub(crate) label_names: wasm_encoder::IndirectNameMap,
    pub(crate) type_names: wasm_encoder::NameMap,
    pub(crate) table_names: wasm_encoder::NameMap,
    pub(crate) memory_names: wasm_encoder::NameMap,
    pub(crate) global_names: wasm_encoder::NameMap,
    pub(crate) elem_names: wasm_encoder::NameMap,
    pub(crate) data_names: wasm_encoder::NameMap,
    pub(crate) field_names: wasm_encoder::IndirectNameMap,
    pub(crate) tag_names: wasm_encoder::NameMap,
}

struct InstrBodyFlagged<'a> {
    body: InstrBody<'a>,
    bool_flag: LocalID,
}

struct InstrToInject<'a> {
    flagged: Vec<InstrBodyFlagged<'a>>,
    not_flagged: Vec<InstrBody<'a>>,
}

pub struct FunctionModifier<'a, 'b> {
    pub instr_flag: &'a mut FuncInstrFlag<'b>,
    pub body: &'a mut Body<'b>,
    pub args: &'a mut Vec<LocalID>,
    pub(crate) instr_idx: Option<usize>,
}

pub trait Instrumenter<'a> {
    spec fn n_instrs(&self) -> nat;
    spec fn flag_at(&self, i: int) -> InstrumentationFlag<'a>;
    spec fn op_at(&self, i: int) -> Operator<'a>;
    spec fn cursor(&self) -> Option<usize>;
    spec fn func_mode(&self) -> bool;
    spec fn has_special(&self) -> bool;

    fn set_instrument_mode_at(&mut self, mode: InstrumentationMode, loc: Location)
        requires
            loc is Module,
            loc->Module_instr_idx < old(self).n_instrs(),
        ensures
            final(self).n_instrs() == old(self).n_instrs(),
            final(self).cursor() == Some(loc->Module_instr_idx as usize),
            final(self).func_mode() == old(self).func_mode(),
            final(self).has_special() == old(self).has_special(),
            forall|i: int| 0 <= i < old(self).n_instrs() ==> final(self).op_at(i) == old(self).op_at(i),
            forall|i: int| 0 <= i < old(self).n_instrs() && i != loc->Module_instr_idx ==> final(self).flag_at(i) == old(self).flag_at(i),
            final(self).flag_at(loc->Module_instr_idx as int) == (InstrumentationFlag { current_mode: Some(mode), ..old(self).flag_at(loc->Module_instr_idx as int) });

    fn add_instr_at(&mut self, loc: Location, instr: Operator<'a>);

    fn before_at(&mut self, loc: Location) -> (r: &mut Self)
        requires loc is Module, loc->Module_instr_idx < old(self).n_instrs(),
        ensures r.n_instrs() == old(self).n_instrs(),
            r.cursor() == Some(loc->Module_instr_idx as usize),
            r.func_mode() == old(self).func_mode(),
            r.has_special() == old(self).has_special(),
            forall|i: int| 0 <= i < old(self).n_instrs() ==> r.op_at(i) == old(self).op_at(i),
            forall|i: int| 0 <= i < old(self).n_instrs() && i != loc->Module_instr_idx ==> r.flag_at(i) == old(self).flag_at(i),
            r.flag_at(loc->Module_instr_idx as int) == (InstrumentationFlag { current_mode: Some(InstrumentationMode::Before), ..old(self).flag_at(loc->Module_instr_idx as int) }),
            final(r).n_instrs() == final(self).n_instrs(), final(r).cursor() == final(self).cursor(), final(r).func_mode() == final(self).func_mode(), final(r).has_special() == final(self).has_special(),
            forall|i: int| 0 <= i < final(r).n_instrs() ==> final(r).op_at(i) == final(self).op_at(i) && final(r).flag_at(i) == final(self).flag_at(i),
    {
        self.set_instrument_mode_at(InstrumentationMode::Before, loc);
        self
    }

    fn after_at(&mut self, loc: Location) -> (r: &mut Self)
        requires loc is Module, loc->Module_instr_idx < old(self).n_instrs(),
        ensures r.n_instrs() == old(self).n_instrs(),
            r.cursor() == Some(loc->Module_instr_idx as usize),
            r.func_mode() == old(self).func_mode(),
            r.has_special() == old(self).has_special(),
            forall|i: int| 0 <= i < old(self).n_instrs() ==> r.op_at(i) == old(self).op_at(i),
            forall|i: int| 0 <= i < old(self).n_instrs() && i != loc->Module_instr_idx ==> r.flag_at(i) == old(self).flag_at(i),
            r.flag_at(loc->Module_instr_idx as int) == (InstrumentationFlag { current_mode: Some(InstrumentationMode::After), ..old(self).flag_at(loc->Module_instr_idx as int) }),
            final(r).n_instrs() == final(self).n_instrs(), final(r).cursor() == final(self).cursor(), final(r).func_mode() == final(self).func_mode(), final(r).has_special() == final(self).has_special(),
            forall|i: int| 0 <= i < final(r).n_instrs() ==> final(r).op_at(i) == final(self).op_at(i) && final(r).flag_at(i) == final(self).flag_at(i),
    {
        self.set_instrument_mode_at(InstrumentationMode::After, loc);
        self
    }
}

pub trait Inject<'a> {
    fn inject(&mut self, instr: Operator<'a>);

    #[verifier::external_body]
    fn inject_all(&mut self, instrs: &[Operator<'a>]) -> &mut Self {
        instrs.iter().for_each(|instr| {
            self.inject(instr.to_owned());
        });
        self
    }
}


impl<'b> Inject<'b> for FunctionModifier<'_, 'b> {
    // TODO: refactor the inject the function to return a Result rather than panicking?
    fn inject(&mut self, instr: Operator<'b>) {
        if self.instr_flag.current_mode.is_some() {
            // inject at the function level
            self.instr_flag.add_instr(instr);
        } else {
            // inject at instruction level
            if let Some(idx) = self.instr_idx {
                let is_special = self.body.instructions[idx].add_instr(instr);
                // remember if we injected a special instrumentation (to be resolved before encoding)
                { let __rhs: bool = is_special; self.instr_flag.has_special_instr = self.instr_flag.has_special_instr || __rhs; }
            } else {
                panic!("Instruction index not set");
            }
        }
    }
}

impl<'b> Instrumenter<'b> for FunctionModifier<'_, 'b> {
    closed spec fn n_instrs(&self) -> nat { self.body.instructions@.len() }
    closed spec fn flag_at(&self, i: int) -> InstrumentationFlag<'b> { self.body.instructions@[i].instr_flag }
    closed spec fn op_at(&self, i: int) -> Operator<'b> { self.body.instructions@[i].op }
    closed spec fn cursor(&self) -> Option<usize> { self.instr_idx }
    closed spec fn func_mode(&self) -> bool { self.instr_flag.current_mode is Some }
    closed spec fn has_special(&self) -> bool { self.instr_flag.has_special_instr }

    fn set_instrument_mode_at(&mut self, mode: InstrumentationMode, loc: Location) {
        if let Location::Module { instr_idx, .. } = loc {
            self.instr_idx = Some(instr_idx);
            self.body.instructions[instr_idx].instr_flag.current_mode = Some(mode);
        } else {
            panic!("Should have gotten module location");
        }
    }

    #[verifier::external_body]
    fn add_instr_at(&mut self, loc: Location, instr: Operator<'b>) {
        if let Location::Module { instr_idx, .. } = loc {
            self.body.instructions[instr_idx].add_instr(instr);
        } else {
            panic!("Should have gotten module location");
        }
    }
}



fn resolve_block_entry<'a, 'b, 'c>(
    block_entry: &InstrBody<'c>,
    builder: &mut FunctionModifier<'a, 'b>,
    op: &Operator,
    idx: usize,
) where
    'c: 'b,
{
    // convert instr to simple before/after/alt
    match op {
        Operator::Block { .. }
        | Operator::Loop { .. }
        | Operator::If { .. }
        | Operator::Else { .. } => {
            // just inject immediately after the start of the block
            builder.after_at(Location::Module {
                func_idx: FunctionID(0), // not used
                instr_idx: idx,
            });
            builder.inject_all(block_entry);

            // no need to remove the contents of block_entry since we're actually
            // using a read-only copy!
        }
        _ => {
            // no need to remove the contents of block_entry since we're actually
            // using a read-only copy!
        }
    }
}

impl<'a> InstrumentationFlag<'a> {
    pub fn add_instr(&mut self, op: &Operator, val: Operator<'a>) -> bool {
        match self.current_mode {
            None => {
                panic!("Current mode is not set...cannot inject instructions!")
            }
            Some(InstrumentationMode::Before) => {
                self.before.instrs.push(val);
                false
            }
            Some(InstrumentationMode::After) => {
                self.after.instrs.push(val);
                false
            }
            Some(InstrumentationMode::Alternate) => {
                match &mut self.alternate {
                    None => {
                        self.alternate = Some(InjectedInstrs {
                            instrs: vec![val],
                            tag: None,
                        })
                    }
                    Some(alternate) => alternate.instrs.push(val),
                }
                false
            }
            Some(InstrumentationMode::SemanticAfter) => {
                if Self::is_block_style_op(op) || Self::is_branching_op(op) {
                    self.semantic_after.instrs.push(val);
                    true
                } else {
                    // instrumentation type not applicable!
                    panic!(
                        "Cannot apply semantic after instrumentation mode to op type: {:?}",
                        op
                    );
                }
            }
            Some(InstrumentationMode::BlockEntry) => {
                if Self::is_block_style_op(op) {
                    self.block_entry.instrs.push(val);
                    true
                } else {
                    // instrumentation type not applicable!
                    panic!(
                        "Cannot apply block entry instrumentation mode to op type: {:?}",
                        op
                    );
                }
            }
            Some(InstrumentationMode::BlockExit) => {
                if Self::is_block_style_op(op) {
                    self.block_exit.instrs.push(val);
                    true
                } else {
                    // instrumentation type not applicable!
                    panic!(
                        "Cannot apply block exit instrumentation mode to op type: {:?}",
                        op
                    );
                }
            }
            Some(InstrumentationMode::BlockAlt) => {
                if Self::is_block_style_op(op) {
                    match &mut self.block_alt {
                        None => {
                            self.block_alt = Some(InjectedInstrs {
                                instrs: vec![val],
                                tag: None,
                            })
                        }
                        Some(block_alt) => block_alt.instrs.push(val),
                    }
                    true
                } else {
                    // instrumentation type not applicable!
                    panic!(
                        "Cannot apply block alternate instrumentation mode to op type: {:?}",
                        op
                    );
                }
            }
        }
    }

    fn is_block_style_op(op: &Operator) -> bool {
        matches!(
            op,
            Operator::Block { .. }
                | Operator::Loop { .. }
                | Operator::If { .. }
                | Operator::Else { .. }
        )
    }

    fn is_branching_op(op: &Operator) -> bool {
        matches!(
            op,
            Operator::Br { .. }
                | Operator::BrIf { .. }
                | Operator::BrTable { .. }
                | Operator::BrOnCast { .. }
                | Operator::BrOnCastFail { .. }
                | Operator::BrOnNull { .. }
                | Operator::BrOnNonNull { .. }
        )
    }
}


impl<'a> FuncInstrFlag<'a> {
    pub fn add_instr(&mut self, val: Operator<'a>) {
        self.has_special_instr = true;
        match self.current_mode {
            None => {
                panic!("Current mode is not set...cannot inject instructions!")
            }
            Some(FuncInstrMode::Entry) => self.entry.instrs.push(val),
            Some(FuncInstrMode::Exit) => self.exit.instrs.push(val),
        }
    }
}


impl<'a, 'b> Instruction<'a>
where
    'b: 'a, {
    pub fn add_instr(&mut self, val: Operator<'a>) -> bool {
        self.instr_flag.add_instr(&self.op, val)
    }
}

}
fn main(){}
