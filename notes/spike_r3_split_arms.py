# R3 prototype: split or-pattern arms of the outermost `match` of a function into one arm per alternative
import re
def find_block(src,i):
    k=src.index('{',i); d=0
    while True:
        c=src[k]
        if c=='{': d+=1
        elif c=='}':
            d-=1
            if d==0: return k+1
        k+=1
def split_arms(body):
    # body: text between the braces of match; returns list of (pattern, rhs)
    arms=[]; i=0; n=len(body)
    while i<n:
        # skip ws/comments
        m=re.match(r'(\s|//[^\n]*\n)*', body[i:]); i+=m.end()
        if i>=n: break
        j=body.index('=>',i)
        pat=body[i:j].strip()
        k=j+2
        while body[k].isspace(): k+=1
        if body[k]=='{':
            e=find_block(body,k); rhs=body[k:e]
            m2=re.match(r'\s*,?', body[e:]); e+=m2.end()
        else:
            # expression until top-level comma
            d=0; e=k
            while e<n:
                c=body[e]
                if c in '({[': d+=1
                elif c in ')}]': d-=1
                elif c==',' and d==0: break
                e+=1
            rhs=body[k:e]; e+=1
        arms.append((pat,rhs)); i=e
    return arms
def split_alts(pat):
    pat=re.sub(r'//[^\n]*\n','\n',pat)
    alts=[]; d=0; cur=''
    for c in pat:
        if c in '({[': d+=1
        elif c in ')}]': d-=1
        if c=='|' and d==0: alts.append(cur.strip()); cur=''
        else: cur+=c
    if cur.strip(): alts.append(cur.strip())
    return alts
def r3(fn_text):
    i=fn_text.index('match op {'); b=fn_text.index('{',i); e=find_block(fn_text,b)
    arms=split_arms(fn_text[b+1:e-1])
    out=[]
    for pat,rhs in arms:
        for a in split_alts(pat):
            out.append("        %s => %s,"%(a,rhs))
    return fn_text[:b+1]+"\n"+"\n".join(out)+"\n    "+fn_text[e-1:]
