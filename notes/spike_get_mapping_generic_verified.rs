use vstd::prelude::*;
use vstd::std_specs::iter::IteratorSpec;
use std::collections::HashMap;
verus! {
pub trait GetID {
    spec fn s_id(&self) -> u32;
    fn get_id(&self) -> (r: u32) ensures r == self.s_id();
}

pub open spec fn ids_distinct<T: GetID>(s: Seq<T>) -> bool {
    forall|i: int, j: int| 0 <= i < j < s.len() ==> s[i].s_id() != s[j].s_id()
}

    pub(crate) fn get_mapping_generic<T: GetID>(
        slice: std::slice::Iter<'_, T>,
    ) -> (mapping: HashMap<u32, u32>)
        requires
            slice.obeys_prophetic_iter_laws(), slice.decrease() is Some,
            slice.remaining().len() <= u32::MAX,
            ids_distinct(slice.remaining().map_values(|x: &T| *x)),
        ensures
            forall|i: int| 0 <= i < slice.remaining().len() ==>
                mapping@.contains_key(#[trigger] slice.remaining()[i].s_id()) && mapping@[slice.remaining()[i].s_id()] == i,
            forall|k: u32| mapping@.contains_key(k) ==> exists|i: int| 0 <= i < slice.remaining().len() && slice.remaining()[i].s_id() == k,
    {
        let mut mapping = HashMap::new();
        let ghost s = slice.remaining();
        let mut new_id: usize = 0;
        for item in it: slice
            invariant
                new_id == it.index@, new_id <= s.len(), s.len() <= u32::MAX, s == slice.remaining(),
                ids_distinct(s.map_values(|x: &T| *x)),
                forall|i: int| 0 <= i < new_id ==> mapping@.contains_key(#[trigger] s[i].s_id()) && mapping@[s[i].s_id()] == i,
                forall|k: u32| mapping@.contains_key(k) ==> exists|i: int| 0 <= i < new_id && s[i].s_id() == k,
        {
            let old_id = item.get_id();
            proof {
                assert(item == s[new_id as int]);
                assert forall|i: int| 0 <= i < new_id implies s[i].s_id() != old_id by {
                    let t = s.map_values(|x: &T| *x);
                    assert(t[i].s_id() != t[new_id as int].s_id());
                }
            }
            mapping.insert(old_id, new_id as u32);
            new_id += 1;
        }
        mapping
    }
}
fn main(){}
