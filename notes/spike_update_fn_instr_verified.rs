use vstd::prelude::*;
use wasmparser::Operator;
use std::collections::HashMap;
verus! {
#[verifier::external_type_specification]
pub struct ExOperator<'a>(wasmparser::Operator<'a>);


#[verifier::external_type_specification] #[verifier::external_body] pub struct ExBrTable<'a>(wasmparser::BrTable<'a>);
#[verifier::external_type_specification] #[verifier::external_body] pub struct ExIeee32(wasmparser::Ieee32);
#[verifier::external_type_specification] #[verifier::external_body] pub struct ExIeee64(wasmparser::Ieee64);
#[verifier::external_type_specification] pub struct ExMemArg(wasmparser::MemArg);
#[verifier::external_type_specification] pub struct ExOrdering(wasmparser::Ordering);
#[verifier::external_type_specification] #[verifier::external_body] pub struct ExRefType(wasmparser::RefType);
#[verifier::external_type_specification] #[verifier::external_body] pub struct ExResumeTable(wasmparser::ResumeTable);
#[verifier::external_type_specification] #[verifier::external_body] pub struct ExTryTable(wasmparser::TryTable);
#[verifier::external_type_specification] #[verifier::external_body] pub struct ExV128(wasmparser::V128);
#[verifier::external_type_specification] pub struct ExValType(wasmparser::ValType);
#[verifier::external_type_specification] pub struct ExBlockType(wasmparser::BlockType);
#[verifier::external_type_specification] pub struct ExHeapType(wasmparser::HeapType);

#[verifier::external_type_specification] pub struct ExAbstractHeapType(wasmparser::AbstractHeapType);
#[verifier::external_type_specification] #[verifier::external_body] pub struct ExUnpackedIndex(wasmparser::UnpackedIndex);



pub open spec fn func_idx(op: Operator) -> Option<u32> {
    match op {
        Operator::Call { function_index } => Some(function_index),
        Operator::RefFunc { function_index } => Some(function_index),
        Operator::ReturnCall { function_index } => Some(function_index),
        _ => None,
    }
}

pub(crate) fn update_fn_instr(op: &mut Operator, mapping: &HashMap<u32, u32>)
    requires func_idx(*old(op)) is Some, mapping@.contains_key(func_idx(*old(op)).unwrap()),
    ensures func_idx(*final(op)) == Some(mapping@[func_idx(*old(op)).unwrap()]),
{
    match op {
        Operator::Call { function_index } => match mapping.get(&(*function_index)) {
            Some(new_index) => {
                *function_index = *new_index;
            }
            None => panic!("Deleted function!"),
        },
        Operator::RefFunc { function_index } => match mapping.get(&(*function_index)) {
            Some(new_index) => {
                *function_index = *new_index;
            }
            None => panic!("Deleted function!"),
        },
        Operator::ReturnCall { function_index } => match mapping.get(&(*function_index)) {
            Some(new_index) => {
                *function_index = *new_index;
            }
            None => panic!("Deleted function!"),
        },
        _ => panic!("Operation doesn't need to be checked for function IDs!"),
    }
}
}
fn main(){}
