import re,sys
def find_block(src,i):
    k=src.index('{',i); d=0
    while True:
        c=src[k]
        if c=='{': d+=1
        elif c=='}':
            d-=1
            if d==0: return k+1
        k+=1
def grab_item(path, header):
    src=open('/repo/src/'+path).read()
    i=src.index(header)
    ls=src.rfind('\n',0,i)+1
    return src[ls:find_block(src,i)]
def grab_methods(path, impl_header, names, keep_all=False):
    src=open('/repo/src/'+path).read()
    body=""
    pos=0
    while True:
        i=src.find(impl_header,pos)
        if i<0: break
        e=find_block(src,i)
        body+=src[src.index('{',i)+1:e-1]+"\n"
        pos=e
    out=[]
    for n in names:
        m=re.search(r'^[ \t]*(pub(\([a-z]+\))? )?fn '+n+r'\b', body, re.M)
        if not m: raise Exception("no method "+n+" in "+impl_header)
        j=m.start()
        # decl without body?
        semi=body.find(';',j); br=body.find('{',j)
        if semi!=-1 and (br==-1 or semi<br):
            out.append(body[j:semi+1])
        else:
            out.append(body[j:find_block(body,j)])
    return impl_header.rstrip().rstrip("{").rstrip()+" {\n"+"\n\n".join(out)+"\n}\n"
if __name__=="__main__":
    pass
