import re,sys
files=["ir/id.rs","ir/types.rs","ir/module/module_types.rs","ir/module/module_imports.rs","ir/module/module_functions.rs","ir/module/module_globals.rs","ir/module/module_memories.rs","ir/module/module_tables.rs","ir/module/module_exports.rs","ir/module/mod.rs"]
out=[]
def block_end(src,i):
    # from i find first '{' or ';' at depth 0 ( for tuple structs )
    k=i; 
    while src[k] not in '{;(': k+=1
    if src[k]=='(':
        # tuple struct: ends at ';'
        return src.index(';',k)+1
    if src[k]==';': return k+1
    d=0
    while True:
        c=src[k]
        if c=='{': d+=1
        elif c=='}':
            d-=1
            if d==0: return k+1
        k+=1
for f in files:
    src=open('/repo/src/'+f).read()
    for m in re.finditer(r'^(pub(\(crate\))? )?(struct|enum) (\w+)', src, re.M):
        i=m.start()
        # attrs
        lines=src[:i].split("\n"); idx=len(lines)-2
        while idx>=0 and (lines[idx].strip().startswith("#[") or lines[idx].strip().startswith("///")): idx-=1
        start=len("\n".join(lines[:idx+1]))+1
        if idx<0: start=0
        text=src[start:block_end(src,i)]
        text="\n".join(l for l in text.split("\n") if not l.strip().startswith("///") and not l.strip().startswith("//"))
        text=re.sub(r'#\[doc\(hidden\)\]|#!\[.*?\]','',text)
        text=text.replace('#[derive(Debug, Default)]','#[derive(Debug)]')
        out.append(text)
print("\n\n".join(out))
