use vstd::prelude::*;
use wasmparser::Operator;
use std::collections::HashMap;
verus! {
#[verifier::external_type_specification]
pub struct ExOperator<'a>(wasmparser::Operator<'a>);
#[verifier::external_type_specification]
#[verifier::external_type_specification] #[verifier::external_body] pub struct ExBrTable<'a>(wasmparser::BrTable<'a>);
#[verifier::external_type_specification] #[verifier::external_body] pub struct ExConstExpr<'a>(wasmparser::ConstExpr<'a>);
#[verifier::external_type_specification] #[verifier::external_body] pub struct ExGlobalType(wasmparser::GlobalType);
#[verifier::external_type_specification] #[verifier::external_body] pub struct ExIeee32(wasmparser::Ieee32);
#[verifier::external_type_specification] #[verifier::external_body] pub struct ExIeee64(wasmparser::Ieee64);
#[verifier::external_type_specification] #[verifier::external_body] pub struct ExIndirectNameMap(wasm_encoder::IndirectNameMap);
#[verifier::external_type_specification] #[verifier::external_body] pub struct ExMemoryType(wasmparser::MemoryType);
#[verifier::external_type_specification] #[verifier::external_body] pub struct ExNameMap(wasm_encoder::NameMap);
#[verifier::external_type_specification] #[verifier::external_body] pub struct ExPackedIndex(wasmparser::PackedIndex);
#[verifier::external_type_specification] #[verifier::external_body] pub struct ExRefType(wasmparser::RefType);
#[verifier::external_type_specification] #[verifier::external_body] pub struct ExResumeTable(wasmparser::ResumeTable);
#[verifier::external_type_specification] #[verifier::external_body] pub struct ExTableType(wasmparser::TableType);
#[verifier::external_type_specification] #[verifier::external_body] pub struct ExTagType(wasmparser::TagType);
#[verifier::external_type_specification] #[verifier::external_body] pub struct ExTryTable(wasmparser::TryTable);
#[verifier::external_type_specification] #[verifier::external_body] pub struct ExUnpackedIndex(wasmparser::UnpackedIndex);
#[verifier::external_type_specification] #[verifier::external_body] pub struct ExV128(wasmparser::V128);
#[verifier::external_type_specification] pub struct ExAbstractHeapType(wasmparser::AbstractHeapType);
#[verifier::external_type_specification] pub struct ExBlockType(wasmparser::BlockType);
#[verifier::external_type_specification] pub struct ExExternalKind(wasmparser::ExternalKind);
#[verifier::external_type_specification] pub struct ExHeapType(wasmparser::HeapType);
#[verifier::external_type_specification] pub struct ExMemArg(wasmparser::MemArg);
#[verifier::external_type_specification] pub struct ExOrdering(wasmparser::Ordering);
#[verifier::external_type_specification] pub struct ExTypeRef(wasmparser::TypeRef);
#[verifier::external_type_specification] pub struct ExValType(wasmparser::ValType);

pub open spec fn mem_refs(op: Operator) -> Seq<u32> {
    match op {
        Operator::I32Load { memarg } => seq![memarg.memory],
        Operator::I64Load { memarg } => seq![memarg.memory],
        Operator::F32Load { memarg } => seq![memarg.memory],
        Operator::F64Load { memarg } => seq![memarg.memory],
        Operator::I32Load8S { memarg } => seq![memarg.memory],
        Operator::I32Load8U { memarg } => seq![memarg.memory],
        Operator::I32Load16S { memarg } => seq![memarg.memory],
        Operator::I32Load16U { memarg } => seq![memarg.memory],
        Operator::I64Load8S { memarg } => seq![memarg.memory],
        Operator::I64Load8U { memarg } => seq![memarg.memory],
        Operator::I64Load16S { memarg } => seq![memarg.memory],
        Operator::I64Load16U { memarg } => seq![memarg.memory],
        Operator::I64Load32S { memarg } => seq![memarg.memory],
        Operator::I64Load32U { memarg } => seq![memarg.memory],
        Operator::I32Store { memarg } => seq![memarg.memory],
        Operator::I64Store { memarg } => seq![memarg.memory],
        Operator::F32Store { memarg } => seq![memarg.memory],
        Operator::F64Store { memarg } => seq![memarg.memory],
        Operator::I32Store8 { memarg } => seq![memarg.memory],
        Operator::I32Store16 { memarg } => seq![memarg.memory],
        Operator::I64Store8 { memarg } => seq![memarg.memory],
        Operator::I64Store16 { memarg } => seq![memarg.memory],
        Operator::I64Store32 { memarg } => seq![memarg.memory],
        Operator::MemorySize { mem } => seq![mem],
        Operator::MemoryGrow { mem } => seq![mem],
        Operator::MemoryInit { data_index, mem } => seq![mem],
        Operator::MemoryCopy { dst_mem, src_mem } => seq![dst_mem, src_mem],
        Operator::MemoryFill { mem } => seq![mem],
        Operator::MemoryDiscard { mem } => seq![mem],
        Operator::MemoryAtomicNotify { memarg } => seq![memarg.memory],
        Operator::MemoryAtomicWait32 { memarg } => seq![memarg.memory],
        Operator::MemoryAtomicWait64 { memarg } => seq![memarg.memory],
        Operator::I32AtomicLoad { memarg } => seq![memarg.memory],
        Operator::I64AtomicLoad { memarg } => seq![memarg.memory],
        Operator::I32AtomicLoad8U { memarg } => seq![memarg.memory],
        Operator::I32AtomicLoad16U { memarg } => seq![memarg.memory],
        Operator::I64AtomicLoad8U { memarg } => seq![memarg.memory],
        Operator::I64AtomicLoad16U { memarg } => seq![memarg.memory],
        Operator::I64AtomicLoad32U { memarg } => seq![memarg.memory],
        Operator::I32AtomicStore { memarg } => seq![memarg.memory],
        Operator::I64AtomicStore { memarg } => seq![memarg.memory],
        Operator::I32AtomicStore8 { memarg } => seq![memarg.memory],
        Operator::I32AtomicStore16 { memarg } => seq![memarg.memory],
        Operator::I64AtomicStore8 { memarg } => seq![memarg.memory],
        Operator::I64AtomicStore16 { memarg } => seq![memarg.memory],
        Operator::I64AtomicStore32 { memarg } => seq![memarg.memory],
        Operator::I32AtomicRmwAdd { memarg } => seq![memarg.memory],
        Operator::I64AtomicRmwAdd { memarg } => seq![memarg.memory],
        Operator::I32AtomicRmw8AddU { memarg } => seq![memarg.memory],
        Operator::I32AtomicRmw16AddU { memarg } => seq![memarg.memory],
        Operator::I64AtomicRmw8AddU { memarg } => seq![memarg.memory],
        Operator::I64AtomicRmw16AddU { memarg } => seq![memarg.memory],
        Operator::I64AtomicRmw32AddU { memarg } => seq![memarg.memory],
        Operator::I32AtomicRmwSub { memarg } => seq![memarg.memory],
        Operator::I64AtomicRmwSub { memarg } => seq![memarg.memory],
        Operator::I32AtomicRmw8SubU { memarg } => seq![memarg.memory],
        Operator::I32AtomicRmw16SubU { memarg } => seq![memarg.memory],
        Operator::I64AtomicRmw8SubU { memarg } => seq![memarg.memory],
        Operator::I64AtomicRmw16SubU { memarg } => seq![memarg.memory],
        Operator::I64AtomicRmw32SubU { memarg } => seq![memarg.memory],
        Operator::I32AtomicRmwAnd { memarg } => seq![memarg.memory],
        Operator::I64AtomicRmwAnd { memarg } => seq![memarg.memory],
        Operator::I32AtomicRmw8AndU { memarg } => seq![memarg.memory],
        Operator::I32AtomicRmw16AndU { memarg } => seq![memarg.memory],
        Operator::I64AtomicRmw8AndU { memarg } => seq![memarg.memory],
        Operator::I64AtomicRmw16AndU { memarg } => seq![memarg.memory],
        Operator::I64AtomicRmw32AndU { memarg } => seq![memarg.memory],
        Operator::I32AtomicRmwOr { memarg } => seq![memarg.memory],
        Operator::I64AtomicRmwOr { memarg } => seq![memarg.memory],
        Operator::I32AtomicRmw8OrU { memarg } => seq![memarg.memory],
        Operator::I32AtomicRmw16OrU { memarg } => seq![memarg.memory],
        Operator::I64AtomicRmw8OrU { memarg } => seq![memarg.memory],
        Operator::I64AtomicRmw16OrU { memarg } => seq![memarg.memory],
        Operator::I64AtomicRmw32OrU { memarg } => seq![memarg.memory],
        Operator::I32AtomicRmwXor { memarg } => seq![memarg.memory],
        Operator::I64AtomicRmwXor { memarg } => seq![memarg.memory],
        Operator::I32AtomicRmw8XorU { memarg } => seq![memarg.memory],
        Operator::I32AtomicRmw16XorU { memarg } => seq![memarg.memory],
        Operator::I64AtomicRmw8XorU { memarg } => seq![memarg.memory],
        Operator::I64AtomicRmw16XorU { memarg } => seq![memarg.memory],
        Operator::I64AtomicRmw32XorU { memarg } => seq![memarg.memory],
        Operator::I32AtomicRmwXchg { memarg } => seq![memarg.memory],
        Operator::I64AtomicRmwXchg { memarg } => seq![memarg.memory],
        Operator::I32AtomicRmw8XchgU { memarg } => seq![memarg.memory],
        Operator::I32AtomicRmw16XchgU { memarg } => seq![memarg.memory],
        Operator::I64AtomicRmw8XchgU { memarg } => seq![memarg.memory],
        Operator::I64AtomicRmw16XchgU { memarg } => seq![memarg.memory],
        Operator::I64AtomicRmw32XchgU { memarg } => seq![memarg.memory],
        Operator::I32AtomicRmwCmpxchg { memarg } => seq![memarg.memory],
        Operator::I64AtomicRmwCmpxchg { memarg } => seq![memarg.memory],
        Operator::I32AtomicRmw8CmpxchgU { memarg } => seq![memarg.memory],
        Operator::I32AtomicRmw16CmpxchgU { memarg } => seq![memarg.memory],
        Operator::I64AtomicRmw8CmpxchgU { memarg } => seq![memarg.memory],
        Operator::I64AtomicRmw16CmpxchgU { memarg } => seq![memarg.memory],
        Operator::I64AtomicRmw32CmpxchgU { memarg } => seq![memarg.memory],
        Operator::V128Load { memarg } => seq![memarg.memory],
        Operator::V128Load8x8S { memarg } => seq![memarg.memory],
        Operator::V128Load8x8U { memarg } => seq![memarg.memory],
        Operator::V128Load16x4S { memarg } => seq![memarg.memory],
        Operator::V128Load16x4U { memarg } => seq![memarg.memory],
        Operator::V128Load32x2S { memarg } => seq![memarg.memory],
        Operator::V128Load32x2U { memarg } => seq![memarg.memory],
        Operator::V128Load8Splat { memarg } => seq![memarg.memory],
        Operator::V128Load16Splat { memarg } => seq![memarg.memory],
        Operator::V128Load32Splat { memarg } => seq![memarg.memory],
        Operator::V128Load64Splat { memarg } => seq![memarg.memory],
        Operator::V128Load32Zero { memarg } => seq![memarg.memory],
        Operator::V128Load64Zero { memarg } => seq![memarg.memory],
        Operator::V128Store { memarg } => seq![memarg.memory],
        Operator::V128Load8Lane { memarg, lane } => seq![memarg.memory],
        Operator::V128Load16Lane { memarg, lane } => seq![memarg.memory],
        Operator::V128Load32Lane { memarg, lane } => seq![memarg.memory],
        Operator::V128Load64Lane { memarg, lane } => seq![memarg.memory],
        Operator::V128Store8Lane { memarg, lane } => seq![memarg.memory],
        Operator::V128Store16Lane { memarg, lane } => seq![memarg.memory],
        Operator::V128Store32Lane { memarg, lane } => seq![memarg.memory],
        Operator::V128Store64Lane { memarg, lane } => seq![memarg.memory],
        _ => Seq::empty(),
    }
}

pub open spec fn with_mem_refs(op: Operator, f: spec_fn(u32) -> u32) -> Operator {
    match op {
        Operator::I32Load { memarg } => Operator::I32Load { memarg: wasmparser::MemArg { align: memarg.align, max_align: memarg.max_align, offset: memarg.offset, memory: f(memarg.memory) } },
        Operator::I64Load { memarg } => Operator::I64Load { memarg: wasmparser::MemArg { align: memarg.align, max_align: memarg.max_align, offset: memarg.offset, memory: f(memarg.memory) } },
        Operator::F32Load { memarg } => Operator::F32Load { memarg: wasmparser::MemArg { align: memarg.align, max_align: memarg.max_align, offset: memarg.offset, memory: f(memarg.memory) } },
        Operator::F64Load { memarg } => Operator::F64Load { memarg: wasmparser::MemArg { align: memarg.align, max_align: memarg.max_align, offset: memarg.offset, memory: f(memarg.memory) } },
        Operator::I32Load8S { memarg } => Operator::I32Load8S { memarg: wasmparser::MemArg { align: memarg.align, max_align: memarg.max_align, offset: memarg.offset, memory: f(memarg.memory) } },
        Operator::I32Load8U { memarg } => Operator::I32Load8U { memarg: wasmparser::MemArg { align: memarg.align, max_align: memarg.max_align, offset: memarg.offset, memory: f(memarg.memory) } },
        Operator::I32Load16S { memarg } => Operator::I32Load16S { memarg: wasmparser::MemArg { align: memarg.align, max_align: memarg.max_align, offset: memarg.offset, memory: f(memarg.memory) } },
        Operator::I32Load16U { memarg } => Operator::I32Load16U { memarg: wasmparser::MemArg { align: memarg.align, max_align: memarg.max_align, offset: memarg.offset, memory: f(memarg.memory) } },
        Operator::I64Load8S { memarg } => Operator::I64Load8S { memarg: wasmparser::MemArg { align: memarg.align, max_align: memarg.max_align, offset: memarg.offset, memory: f(memarg.memory) } },
        Operator::I64Load8U { memarg } => Operator::I64Load8U { memarg: wasmparser::MemArg { align: memarg.align, max_align: memarg.max_align, offset: memarg.offset, memory: f(memarg.memory) } },
        Operator::I64Load16S { memarg } => Operator::I64Load16S { memarg: wasmparser::MemArg { align: memarg.align, max_align: memarg.max_align, offset: memarg.offset, memory: f(memarg.memory) } },
        Operator::I64Load16U { memarg } => Operator::I64Load16U { memarg: wasmparser::MemArg { align: memarg.align, max_align: memarg.max_align, offset: memarg.offset, memory: f(memarg.memory) } },
        Operator::I64Load32S { memarg } => Operator::I64Load32S { memarg: wasmparser::MemArg { align: memarg.align, max_align: memarg.max_align, offset: memarg.offset, memory: f(memarg.memory) } },
        Operator::I64Load32U { memarg } => Operator::I64Load32U { memarg: wasmparser::MemArg { align: memarg.align, max_align: memarg.max_align, offset: memarg.offset, memory: f(memarg.memory) } },
        Operator::I32Store { memarg } => Operator::I32Store { memarg: wasmparser::MemArg { align: memarg.align, max_align: memarg.max_align, offset: memarg.offset, memory: f(memarg.memory) } },
        Operator::I64Store { memarg } => Operator::I64Store { memarg: wasmparser::MemArg { align: memarg.align, max_align: memarg.max_align, offset: memarg.offset, memory: f(memarg.memory) } },
        Operator::F32Store { memarg } => Operator::F32Store { memarg: wasmparser::MemArg { align: memarg.align, max_align: memarg.max_align, offset: memarg.offset, memory: f(memarg.memory) } },
        Operator::F64Store { memarg } => Operator::F64Store { memarg: wasmparser::MemArg { align: memarg.align, max_align: memarg.max_align, offset: memarg.offset, memory: f(memarg.memory) } },
        Operator::I32Store8 { memarg } => Operator::I32Store8 { memarg: wasmparser::MemArg { align: memarg.align, max_align: memarg.max_align, offset: memarg.offset, memory: f(memarg.memory) } },
        Operator::I32Store16 { memarg } => Operator::I32Store16 { memarg: wasmparser::MemArg { align: memarg.align, max_align: memarg.max_align, offset: memarg.offset, memory: f(memarg.memory) } },
        Operator::I64Store8 { memarg } => Operator::I64Store8 { memarg: wasmparser::MemArg { align: memarg.align, max_align: memarg.max_align, offset: memarg.offset, memory: f(memarg.memory) } },
        Operator::I64Store16 { memarg } => Operator::I64Store16 { memarg: wasmparser::MemArg { align: memarg.align, max_align: memarg.max_align, offset: memarg.offset, memory: f(memarg.memory) } },
        Operator::I64Store32 { memarg } => Operator::I64Store32 { memarg: wasmparser::MemArg { align: memarg.align, max_align: memarg.max_align, offset: memarg.offset, memory: f(memarg.memory) } },
        Operator::MemorySize { mem } => Operator::MemorySize { mem: f(mem) },
        Operator::MemoryGrow { mem } => Operator::MemoryGrow { mem: f(mem) },
        Operator::MemoryInit { data_index, mem } => Operator::MemoryInit { mem: f(mem), data_index },
        Operator::MemoryCopy { dst_mem, src_mem } => Operator::MemoryCopy { dst_mem: f(dst_mem), src_mem: f(src_mem) },
        Operator::MemoryFill { mem } => Operator::MemoryFill { mem: f(mem) },
        Operator::MemoryDiscard { mem } => Operator::MemoryDiscard { mem: f(mem) },
        Operator::MemoryAtomicNotify { memarg } => Operator::MemoryAtomicNotify { memarg: wasmparser::MemArg { align: memarg.align, max_align: memarg.max_align, offset: memarg.offset, memory: f(memarg.memory) } },
        Operator::MemoryAtomicWait32 { memarg } => Operator::MemoryAtomicWait32 { memarg: wasmparser::MemArg { align: memarg.align, max_align: memarg.max_align, offset: memarg.offset, memory: f(memarg.memory) } },
        Operator::MemoryAtomicWait64 { memarg } => Operator::MemoryAtomicWait64 { memarg: wasmparser::MemArg { align: memarg.align, max_align: memarg.max_align, offset: memarg.offset, memory: f(memarg.memory) } },
        Operator::I32AtomicLoad { memarg } => Operator::I32AtomicLoad { memarg: wasmparser::MemArg { align: memarg.align, max_align: memarg.max_align, offset: memarg.offset, memory: f(memarg.memory) } },
        Operator::I64AtomicLoad { memarg } => Operator::I64AtomicLoad { memarg: wasmparser::MemArg { align: memarg.align, max_align: memarg.max_align, offset: memarg.offset, memory: f(memarg.memory) } },
        Operator::I32AtomicLoad8U { memarg } => Operator::I32AtomicLoad8U { memarg: wasmparser::MemArg { align: memarg.align, max_align: memarg.max_align, offset: memarg.offset, memory: f(memarg.memory) } },
        Operator::I32AtomicLoad16U { memarg } => Operator::I32AtomicLoad16U { memarg: wasmparser::MemArg { align: memarg.align, max_align: memarg.max_align, offset: memarg.offset, memory: f(memarg.memory) } },
        Operator::I64AtomicLoad8U { memarg } => Operator::I64AtomicLoad8U { memarg: wasmparser::MemArg { align: memarg.align, max_align: memarg.max_align, offset: memarg.offset, memory: f(memarg.memory) } },
        Operator::I64AtomicLoad16U { memarg } => Operator::I64AtomicLoad16U { memarg: wasmparser::MemArg { align: memarg.align, max_align: memarg.max_align, offset: memarg.offset, memory: f(memarg.memory) } },
        Operator::I64AtomicLoad32U { memarg } => Operator::I64AtomicLoad32U { memarg: wasmparser::MemArg { align: memarg.align, max_align: memarg.max_align, offset: memarg.offset, memory: f(memarg.memory) } },
        Operator::I32AtomicStore { memarg } => Operator::I32AtomicStore { memarg: wasmparser::MemArg { align: memarg.align, max_align: memarg.max_align, offset: memarg.offset, memory: f(memarg.memory) } },
        Operator::I64AtomicStore { memarg } => Operator::I64AtomicStore { memarg: wasmparser::MemArg { align: memarg.align, max_align: memarg.max_align, offset: memarg.offset, memory: f(memarg.memory) } },
        Operator::I32AtomicStore8 { memarg } => Operator::I32AtomicStore8 { memarg: wasmparser::MemArg { align: memarg.align, max_align: memarg.max_align, offset: memarg.offset, memory: f(memarg.memory) } },
        Operator::I32AtomicStore16 { memarg } => Operator::I32AtomicStore16 { memarg: wasmparser::MemArg { align: memarg.align, max_align: memarg.max_align, offset: memarg.offset, memory: f(memarg.memory) } },
        Operator::I64AtomicStore8 { memarg } => Operator::I64AtomicStore8 { memarg: wasmparser::MemArg { align: memarg.align, max_align: memarg.max_align, offset: memarg.offset, memory: f(memarg.memory) } },
        Operator::I64AtomicStore16 { memarg } => Operator::I64AtomicStore16 { memarg: wasmparser::MemArg { align: memarg.align, max_align: memarg.max_align, offset: memarg.offset, memory: f(memarg.memory) } },
        Operator::I64AtomicStore32 { memarg } => Operator::I64AtomicStore32 { memarg: wasmparser::MemArg { align: memarg.align, max_align: memarg.max_align, offset: memarg.offset, memory: f(memarg.memory) } },
        Operator::I32AtomicRmwAdd { memarg } => Operator::I32AtomicRmwAdd { memarg: wasmparser::MemArg { align: memarg.align, max_align: memarg.max_align, offset: memarg.offset, memory: f(memarg.memory) } },
        Operator::I64AtomicRmwAdd { memarg } => Operator::I64AtomicRmwAdd { memarg: wasmparser::MemArg { align: memarg.align, max_align: memarg.max_align, offset: memarg.offset, memory: f(memarg.memory) } },
        Operator::I32AtomicRmw8AddU { memarg } => Operator::I32AtomicRmw8AddU { memarg: wasmparser::MemArg { align: memarg.align, max_align: memarg.max_align, offset: memarg.offset, memory: f(memarg.memory) } },
        Operator::I32AtomicRmw16AddU { memarg } => Operator::I32AtomicRmw16AddU { memarg: wasmparser::MemArg { align: memarg.align, max_align: memarg.max_align, offset: memarg.offset, memory: f(memarg.memory) } },
        Operator::I64AtomicRmw8AddU { memarg } => Operator::I64AtomicRmw8AddU { memarg: wasmparser::MemArg { align: memarg.align, max_align: memarg.max_align, offset: memarg.offset, memory: f(memarg.memory) } },
        Operator::I64AtomicRmw16AddU { memarg } => Operator::I64AtomicRmw16AddU { memarg: wasmparser::MemArg { align: memarg.align, max_align: memarg.max_align, offset: memarg.offset, memory: f(memarg.memory) } },
        Operator::I64AtomicRmw32AddU { memarg } => Operator::I64AtomicRmw32AddU { memarg: wasmparser::MemArg { align: memarg.align, max_align: memarg.max_align, offset: memarg.offset, memory: f(memarg.memory) } },
        Operator::I32AtomicRmwSub { memarg } => Operator::I32AtomicRmwSub { memarg: wasmparser::MemArg { align: memarg.align, max_align: memarg.max_align, offset: memarg.offset, memory: f(memarg.memory) } },
        Operator::I64AtomicRmwSub { memarg } => Operator::I64AtomicRmwSub { memarg: wasmparser::MemArg { align: memarg.align, max_align: memarg.max_align, offset: memarg.offset, memory: f(memarg.memory) } },
        Operator::I32AtomicRmw8SubU { memarg } => Operator::I32AtomicRmw8SubU { memarg: wasmparser::MemArg { align: memarg.align, max_align: memarg.max_align, offset: memarg.offset, memory: f(memarg.memory) } },
        Operator::I32AtomicRmw16SubU { memarg } => Operator::I32AtomicRmw16SubU { memarg: wasmparser::MemArg { align: memarg.align, max_align: memarg.max_align, offset: memarg.offset, memory: f(memarg.memory) } },
        Operator::I64AtomicRmw8SubU { memarg } => Operator::I64AtomicRmw8SubU { memarg: wasmparser::MemArg { align: memarg.align, max_align: memarg.max_align, offset: memarg.offset, memory: f(memarg.memory) } },
        Operator::I64AtomicRmw16SubU { memarg } => Operator::I64AtomicRmw16SubU { memarg: wasmparser::MemArg { align: memarg.align, max_align: memarg.max_align, offset: memarg.offset, memory: f(memarg.memory) } },
        Operator::I64AtomicRmw32SubU { memarg } => Operator::I64AtomicRmw32SubU { memarg: wasmparser::MemArg { align: memarg.align, max_align: memarg.max_align, offset: memarg.offset, memory: f(memarg.memory) } },
        Operator::I32AtomicRmwAnd { memarg } => Operator::I32AtomicRmwAnd { memarg: wasmparser::MemArg { align: memarg.align, max_align: memarg.max_align, offset: memarg.offset, memory: f(memarg.memory) } },
        Operator::I64AtomicRmwAnd { memarg } => Operator::I64AtomicRmwAnd { memarg: wasmparser::MemArg { align: memarg.align, max_align: memarg.max_align, offset: memarg.offset, memory: f(memarg.memory) } },
        Operator::I32AtomicRmw8AndU { memarg } => Operator::I32AtomicRmw8AndU { memarg: wasmparser::MemArg { align: memarg.align, max_align: memarg.max_align, offset: memarg.offset, memory: f(memarg.memory) } },
        Operator::I32AtomicRmw16AndU { memarg } => Operator::I32AtomicRmw16AndU { memarg: wasmparser::MemArg { align: memarg.align, max_align: memarg.max_align, offset: memarg.offset, memory: f(memarg.memory) } },
        Operator::I64AtomicRmw8AndU { memarg } => Operator::I64AtomicRmw8AndU { memarg: wasmparser::MemArg { align: memarg.align, max_align: memarg.max_align, offset: memarg.offset, memory: f(memarg.memory) } },
        Operator::I64AtomicRmw16AndU { memarg } => Operator::I64AtomicRmw16AndU { memarg: wasmparser::MemArg { align: memarg.align, max_align: memarg.max_align, offset: memarg.offset, memory: f(memarg.memory) } },
        Operator::I64AtomicRmw32AndU { memarg } => Operator::I64AtomicRmw32AndU { memarg: wasmparser::MemArg { align: memarg.align, max_align: memarg.max_align, offset: memarg.offset, memory: f(memarg.memory) } },
        Operator::I32AtomicRmwOr { memarg } => Operator::I32AtomicRmwOr { memarg: wasmparser::MemArg { align: memarg.align, max_align: memarg.max_align, offset: memarg.offset, memory: f(memarg.memory) } },
        Operator::I64AtomicRmwOr { memarg } => Operator::I64AtomicRmwOr { memarg: wasmparser::MemArg { align: memarg.align, max_align: memarg.max_align, offset: memarg.offset, memory: f(memarg.memory) } },
        Operator::I32AtomicRmw8OrU { memarg } => Operator::I32AtomicRmw8OrU { memarg: wasmparser::MemArg { align: memarg.align, max_align: memarg.max_align, offset: memarg.offset, memory: f(memarg.memory) } },
        Operator::I32AtomicRmw16OrU { memarg } => Operator::I32AtomicRmw16OrU { memarg: wasmparser::MemArg { align: memarg.align, max_align: memarg.max_align, offset: memarg.offset, memory: f(memarg.memory) } },
        Operator::I64AtomicRmw8OrU { memarg } => Operator::I64AtomicRmw8OrU { memarg: wasmparser::MemArg { align: memarg.align, max_align: memarg.max_align, offset: memarg.offset, memory: f(memarg.memory) } },
        Operator::I64AtomicRmw16OrU { memarg } => Operator::I64AtomicRmw16OrU { memarg: wasmparser::MemArg { align: memarg.align, max_align: memarg.max_align, offset: memarg.offset, memory: f(memarg.memory) } },
        Operator::I64AtomicRmw32OrU { memarg } => Operator::I64AtomicRmw32OrU { memarg: wasmparser::MemArg { align: memarg.align, max_align: memarg.max_align, offset: memarg.offset, memory: f(memarg.memory) } },
        Operator::I32AtomicRmwXor { memarg } => Operator::I32AtomicRmwXor { memarg: wasmparser::MemArg { align: memarg.align, max_align: memarg.max_align, offset: memarg.offset, memory: f(memarg.memory) } },
        Operator::I64AtomicRmwXor { memarg } => Operator::I64AtomicRmwXor { memarg: wasmparser::MemArg { align: memarg.align, max_align: memarg.max_align, offset: memarg.offset, memory: f(memarg.memory) } },
        Operator::I32AtomicRmw8XorU { memarg } => Operator::I32AtomicRmw8XorU { memarg: wasmparser::MemArg { align: memarg.align, max_align: memarg.max_align, offset: memarg.offset, memory: f(memarg.memory) } },
        Operator::I32AtomicRmw16XorU { memarg } => Operator::I32AtomicRmw16XorU { memarg: wasmparser::MemArg { align: memarg.align, max_align: memarg.max_align, offset: memarg.offset, memory: f(memarg.memory) } },
        Operator::I64AtomicRmw8XorU { memarg } => Operator::I64AtomicRmw8XorU { memarg: wasmparser::MemArg { align: memarg.align, max_align: memarg.max_align, offset: memarg.offset, memory: f(memarg.memory) } },
        Operator::I64AtomicRmw16XorU { memarg } => Operator::I64AtomicRmw16XorU { memarg: wasmparser::MemArg { align: memarg.align, max_align: memarg.max_align, offset: memarg.offset, memory: f(memarg.memory) } },
        Operator::I64AtomicRmw32XorU { memarg } => Operator::I64AtomicRmw32XorU { memarg: wasmparser::MemArg { align: memarg.align, max_align: memarg.max_align, offset: memarg.offset, memory: f(memarg.memory) } },
        Operator::I32AtomicRmwXchg { memarg } => Operator::I32AtomicRmwXchg { memarg: wasmparser::MemArg { align: memarg.align, max_align: memarg.max_align, offset: memarg.offset, memory: f(memarg.memory) } },
        Operator::I64AtomicRmwXchg { memarg } => Operator::I64AtomicRmwXchg { memarg: wasmparser::MemArg { align: memarg.align, max_align: memarg.max_align, offset: memarg.offset, memory: f(memarg.memory) } },
        Operator::I32AtomicRmw8XchgU { memarg } => Operator::I32AtomicRmw8XchgU { memarg: wasmparser::MemArg { align: memarg.align, max_align: memarg.max_align, offset: memarg.offset, memory: f(memarg.memory) } },
        Operator::I32AtomicRmw16XchgU { memarg } => Operator::I32AtomicRmw16XchgU { memarg: wasmparser::MemArg { align: memarg.align, max_align: memarg.max_align, offset: memarg.offset, memory: f(memarg.memory) } },
        Operator::I64AtomicRmw8XchgU { memarg } => Operator::I64AtomicRmw8XchgU { memarg: wasmparser::MemArg { align: memarg.align, max_align: memarg.max_align, offset: memarg.offset, memory: f(memarg.memory) } },
        Operator::I64AtomicRmw16XchgU { memarg } => Operator::I64AtomicRmw16XchgU { memarg: wasmparser::MemArg { align: memarg.align, max_align: memarg.max_align, offset: memarg.offset, memory: f(memarg.memory) } },
        Operator::I64AtomicRmw32XchgU { memarg } => Operator::I64AtomicRmw32XchgU { memarg: wasmparser::MemArg { align: memarg.align, max_align: memarg.max_align, offset: memarg.offset, memory: f(memarg.memory) } },
        Operator::I32AtomicRmwCmpxchg { memarg } => Operator::I32AtomicRmwCmpxchg { memarg: wasmparser::MemArg { align: memarg.align, max_align: memarg.max_align, offset: memarg.offset, memory: f(memarg.memory) } },
        Operator::I64AtomicRmwCmpxchg { memarg } => Operator::I64AtomicRmwCmpxchg { memarg: wasmparser::MemArg { align: memarg.align, max_align: memarg.max_align, offset: memarg.offset, memory: f(memarg.memory) } },
        Operator::I32AtomicRmw8CmpxchgU { memarg } => Operator::I32AtomicRmw8CmpxchgU { memarg: wasmparser::MemArg { align: memarg.align, max_align: memarg.max_align, offset: memarg.offset, memory: f(memarg.memory) } },
        Operator::I32AtomicRmw16CmpxchgU { memarg } => Operator::I32AtomicRmw16CmpxchgU { memarg: wasmparser::MemArg { align: memarg.align, max_align: memarg.max_align, offset: memarg.offset, memory: f(memarg.memory) } },
        Operator::I64AtomicRmw8CmpxchgU { memarg } => Operator::I64AtomicRmw8CmpxchgU { memarg: wasmparser::MemArg { align: memarg.align, max_align: memarg.max_align, offset: memarg.offset, memory: f(memarg.memory) } },
        Operator::I64AtomicRmw16CmpxchgU { memarg } => Operator::I64AtomicRmw16CmpxchgU { memarg: wasmparser::MemArg { align: memarg.align, max_align: memarg.max_align, offset: memarg.offset, memory: f(memarg.memory) } },
        Operator::I64AtomicRmw32CmpxchgU { memarg } => Operator::I64AtomicRmw32CmpxchgU { memarg: wasmparser::MemArg { align: memarg.align, max_align: memarg.max_align, offset: memarg.offset, memory: f(memarg.memory) } },
        Operator::V128Load { memarg } => Operator::V128Load { memarg: wasmparser::MemArg { align: memarg.align, max_align: memarg.max_align, offset: memarg.offset, memory: f(memarg.memory) } },
        Operator::V128Load8x8S { memarg } => Operator::V128Load8x8S { memarg: wasmparser::MemArg { align: memarg.align, max_align: memarg.max_align, offset: memarg.offset, memory: f(memarg.memory) } },
        Operator::V128Load8x8U { memarg } => Operator::V128Load8x8U { memarg: wasmparser::MemArg { align: memarg.align, max_align: memarg.max_align, offset: memarg.offset, memory: f(memarg.memory) } },
        Operator::V128Load16x4S { memarg } => Operator::V128Load16x4S { memarg: wasmparser::MemArg { align: memarg.align, max_align: memarg.max_align, offset: memarg.offset, memory: f(memarg.memory) } },
        Operator::V128Load16x4U { memarg } => Operator::V128Load16x4U { memarg: wasmparser::MemArg { align: memarg.align, max_align: memarg.max_align, offset: memarg.offset, memory: f(memarg.memory) } },
        Operator::V128Load32x2S { memarg } => Operator::V128Load32x2S { memarg: wasmparser::MemArg { align: memarg.align, max_align: memarg.max_align, offset: memarg.offset, memory: f(memarg.memory) } },
        Operator::V128Load32x2U { memarg } => Operator::V128Load32x2U { memarg: wasmparser::MemArg { align: memarg.align, max_align: memarg.max_align, offset: memarg.offset, memory: f(memarg.memory) } },
        Operator::V128Load8Splat { memarg } => Operator::V128Load8Splat { memarg: wasmparser::MemArg { align: memarg.align, max_align: memarg.max_align, offset: memarg.offset, memory: f(memarg.memory) } },
        Operator::V128Load16Splat { memarg } => Operator::V128Load16Splat { memarg: wasmparser::MemArg { align: memarg.align, max_align: memarg.max_align, offset: memarg.offset, memory: f(memarg.memory) } },
        Operator::V128Load32Splat { memarg } => Operator::V128Load32Splat { memarg: wasmparser::MemArg { align: memarg.align, max_align: memarg.max_align, offset: memarg.offset, memory: f(memarg.memory) } },
        Operator::V128Load64Splat { memarg } => Operator::V128Load64Splat { memarg: wasmparser::MemArg { align: memarg.align, max_align: memarg.max_align, offset: memarg.offset, memory: f(memarg.memory) } },
        Operator::V128Load32Zero { memarg } => Operator::V128Load32Zero { memarg: wasmparser::MemArg { align: memarg.align, max_align: memarg.max_align, offset: memarg.offset, memory: f(memarg.memory) } },
        Operator::V128Load64Zero { memarg } => Operator::V128Load64Zero { memarg: wasmparser::MemArg { align: memarg.align, max_align: memarg.max_align, offset: memarg.offset, memory: f(memarg.memory) } },
        Operator::V128Store { memarg } => Operator::V128Store { memarg: wasmparser::MemArg { align: memarg.align, max_align: memarg.max_align, offset: memarg.offset, memory: f(memarg.memory) } },
        Operator::V128Load8Lane { memarg, lane } => Operator::V128Load8Lane { memarg: wasmparser::MemArg { align: memarg.align, max_align: memarg.max_align, offset: memarg.offset, memory: f(memarg.memory) }, lane },
        Operator::V128Load16Lane { memarg, lane } => Operator::V128Load16Lane { memarg: wasmparser::MemArg { align: memarg.align, max_align: memarg.max_align, offset: memarg.offset, memory: f(memarg.memory) }, lane },
        Operator::V128Load32Lane { memarg, lane } => Operator::V128Load32Lane { memarg: wasmparser::MemArg { align: memarg.align, max_align: memarg.max_align, offset: memarg.offset, memory: f(memarg.memory) }, lane },
        Operator::V128Load64Lane { memarg, lane } => Operator::V128Load64Lane { memarg: wasmparser::MemArg { align: memarg.align, max_align: memarg.max_align, offset: memarg.offset, memory: f(memarg.memory) }, lane },
        Operator::V128Store8Lane { memarg, lane } => Operator::V128Store8Lane { memarg: wasmparser::MemArg { align: memarg.align, max_align: memarg.max_align, offset: memarg.offset, memory: f(memarg.memory) }, lane },
        Operator::V128Store16Lane { memarg, lane } => Operator::V128Store16Lane { memarg: wasmparser::MemArg { align: memarg.align, max_align: memarg.max_align, offset: memarg.offset, memory: f(memarg.memory) }, lane },
        Operator::V128Store32Lane { memarg, lane } => Operator::V128Store32Lane { memarg: wasmparser::MemArg { align: memarg.align, max_align: memarg.max_align, offset: memarg.offset, memory: f(memarg.memory) }, lane },
        Operator::V128Store64Lane { memarg, lane } => Operator::V128Store64Lane { memarg: wasmparser::MemArg { align: memarg.align, max_align: memarg.max_align, offset: memarg.offset, memory: f(memarg.memory) }, lane },
        _ => op,
    }
}

pub open spec fn mem_refs_in(op: Operator, dom: Set<u32>) -> bool {
    match op {
        Operator::I32Load { memarg } => dom.contains(memarg.memory),
        Operator::I64Load { memarg } => dom.contains(memarg.memory),
        Operator::F32Load { memarg } => dom.contains(memarg.memory),
        Operator::F64Load { memarg } => dom.contains(memarg.memory),
        Operator::I32Load8S { memarg } => dom.contains(memarg.memory),
        Operator::I32Load8U { memarg } => dom.contains(memarg.memory),
        Operator::I32Load16S { memarg } => dom.contains(memarg.memory),
        Operator::I32Load16U { memarg } => dom.contains(memarg.memory),
        Operator::I64Load8S { memarg } => dom.contains(memarg.memory),
        Operator::I64Load8U { memarg } => dom.contains(memarg.memory),
        Operator::I64Load16S { memarg } => dom.contains(memarg.memory),
        Operator::I64Load16U { memarg } => dom.contains(memarg.memory),
        Operator::I64Load32S { memarg } => dom.contains(memarg.memory),
        Operator::I64Load32U { memarg } => dom.contains(memarg.memory),
        Operator::I32Store { memarg } => dom.contains(memarg.memory),
        Operator::I64Store { memarg } => dom.contains(memarg.memory),
        Operator::F32Store { memarg } => dom.contains(memarg.memory),
        Operator::F64Store { memarg } => dom.contains(memarg.memory),
        Operator::I32Store8 { memarg } => dom.contains(memarg.memory),
        Operator::I32Store16 { memarg } => dom.contains(memarg.memory),
        Operator::I64Store8 { memarg } => dom.contains(memarg.memory),
        Operator::I64Store16 { memarg } => dom.contains(memarg.memory),
        Operator::I64Store32 { memarg } => dom.contains(memarg.memory),
        Operator::MemorySize { mem } => dom.contains(mem),
        Operator::MemoryGrow { mem } => dom.contains(mem),
        Operator::MemoryInit { data_index, mem } => dom.contains(mem),
        Operator::MemoryCopy { dst_mem, src_mem } => dom.contains(dst_mem) && dom.contains(src_mem),
        Operator::MemoryFill { mem } => dom.contains(mem),
        Operator::MemoryDiscard { mem } => dom.contains(mem),
        Operator::MemoryAtomicNotify { memarg } => dom.contains(memarg.memory),
        Operator::MemoryAtomicWait32 { memarg } => dom.contains(memarg.memory),
        Operator::MemoryAtomicWait64 { memarg } => dom.contains(memarg.memory),
        Operator::I32AtomicLoad { memarg } => dom.contains(memarg.memory),
        Operator::I64AtomicLoad { memarg } => dom.contains(memarg.memory),
        Operator::I32AtomicLoad8U { memarg } => dom.contains(memarg.memory),
        Operator::I32AtomicLoad16U { memarg } => dom.contains(memarg.memory),
        Operator::I64AtomicLoad8U { memarg } => dom.contains(memarg.memory),
        Operator::I64AtomicLoad16U { memarg } => dom.contains(memarg.memory),
        Operator::I64AtomicLoad32U { memarg } => dom.contains(memarg.memory),
        Operator::I32AtomicStore { memarg } => dom.contains(memarg.memory),
        Operator::I64AtomicStore { memarg } => dom.contains(memarg.memory),
        Operator::I32AtomicStore8 { memarg } => dom.contains(memarg.memory),
        Operator::I32AtomicStore16 { memarg } => dom.contains(memarg.memory),
        Operator::I64AtomicStore8 { memarg } => dom.contains(memarg.memory),
        Operator::I64AtomicStore16 { memarg } => dom.contains(memarg.memory),
        Operator::I64AtomicStore32 { memarg } => dom.contains(memarg.memory),
        Operator::I32AtomicRmwAdd { memarg } => dom.contains(memarg.memory),
        Operator::I64AtomicRmwAdd { memarg } => dom.contains(memarg.memory),
        Operator::I32AtomicRmw8AddU { memarg } => dom.contains(memarg.memory),
        Operator::I32AtomicRmw16AddU { memarg } => dom.contains(memarg.memory),
        Operator::I64AtomicRmw8AddU { memarg } => dom.contains(memarg.memory),
        Operator::I64AtomicRmw16AddU { memarg } => dom.contains(memarg.memory),
        Operator::I64AtomicRmw32AddU { memarg } => dom.contains(memarg.memory),
        Operator::I32AtomicRmwSub { memarg } => dom.contains(memarg.memory),
        Operator::I64AtomicRmwSub { memarg } => dom.contains(memarg.memory),
        Operator::I32AtomicRmw8SubU { memarg } => dom.contains(memarg.memory),
        Operator::I32AtomicRmw16SubU { memarg } => dom.contains(memarg.memory),
        Operator::I64AtomicRmw8SubU { memarg } => dom.contains(memarg.memory),
        Operator::I64AtomicRmw16SubU { memarg } => dom.contains(memarg.memory),
        Operator::I64AtomicRmw32SubU { memarg } => dom.contains(memarg.memory),
        Operator::I32AtomicRmwAnd { memarg } => dom.contains(memarg.memory),
        Operator::I64AtomicRmwAnd { memarg } => dom.contains(memarg.memory),
        Operator::I32AtomicRmw8AndU { memarg } => dom.contains(memarg.memory),
        Operator::I32AtomicRmw16AndU { memarg } => dom.contains(memarg.memory),
        Operator::I64AtomicRmw8AndU { memarg } => dom.contains(memarg.memory),
        Operator::I64AtomicRmw16AndU { memarg } => dom.contains(memarg.memory),
        Operator::I64AtomicRmw32AndU { memarg } => dom.contains(memarg.memory),
        Operator::I32AtomicRmwOr { memarg } => dom.contains(memarg.memory),
        Operator::I64AtomicRmwOr { memarg } => dom.contains(memarg.memory),
        Operator::I32AtomicRmw8OrU { memarg } => dom.contains(memarg.memory),
        Operator::I32AtomicRmw16OrU { memarg } => dom.contains(memarg.memory),
        Operator::I64AtomicRmw8OrU { memarg } => dom.contains(memarg.memory),
        Operator::I64AtomicRmw16OrU { memarg } => dom.contains(memarg.memory),
        Operator::I64AtomicRmw32OrU { memarg } => dom.contains(memarg.memory),
        Operator::I32AtomicRmwXor { memarg } => dom.contains(memarg.memory),
        Operator::I64AtomicRmwXor { memarg } => dom.contains(memarg.memory),
        Operator::I32AtomicRmw8XorU { memarg } => dom.contains(memarg.memory),
        Operator::I32AtomicRmw16XorU { memarg } => dom.contains(memarg.memory),
        Operator::I64AtomicRmw8XorU { memarg } => dom.contains(memarg.memory),
        Operator::I64AtomicRmw16XorU { memarg } => dom.contains(memarg.memory),
        Operator::I64AtomicRmw32XorU { memarg } => dom.contains(memarg.memory),
        Operator::I32AtomicRmwXchg { memarg } => dom.contains(memarg.memory),
        Operator::I64AtomicRmwXchg { memarg } => dom.contains(memarg.memory),
        Operator::I32AtomicRmw8XchgU { memarg } => dom.contains(memarg.memory),
        Operator::I32AtomicRmw16XchgU { memarg } => dom.contains(memarg.memory),
        Operator::I64AtomicRmw8XchgU { memarg } => dom.contains(memarg.memory),
        Operator::I64AtomicRmw16XchgU { memarg } => dom.contains(memarg.memory),
        Operator::I64AtomicRmw32XchgU { memarg } => dom.contains(memarg.memory),
        Operator::I32AtomicRmwCmpxchg { memarg } => dom.contains(memarg.memory),
        Operator::I64AtomicRmwCmpxchg { memarg } => dom.contains(memarg.memory),
        Operator::I32AtomicRmw8CmpxchgU { memarg } => dom.contains(memarg.memory),
        Operator::I32AtomicRmw16CmpxchgU { memarg } => dom.contains(memarg.memory),
        Operator::I64AtomicRmw8CmpxchgU { memarg } => dom.contains(memarg.memory),
        Operator::I64AtomicRmw16CmpxchgU { memarg } => dom.contains(memarg.memory),
        Operator::I64AtomicRmw32CmpxchgU { memarg } => dom.contains(memarg.memory),
        Operator::V128Load { memarg } => dom.contains(memarg.memory),
        Operator::V128Load8x8S { memarg } => dom.contains(memarg.memory),
        Operator::V128Load8x8U { memarg } => dom.contains(memarg.memory),
        Operator::V128Load16x4S { memarg } => dom.contains(memarg.memory),
        Operator::V128Load16x4U { memarg } => dom.contains(memarg.memory),
        Operator::V128Load32x2S { memarg } => dom.contains(memarg.memory),
        Operator::V128Load32x2U { memarg } => dom.contains(memarg.memory),
        Operator::V128Load8Splat { memarg } => dom.contains(memarg.memory),
        Operator::V128Load16Splat { memarg } => dom.contains(memarg.memory),
        Operator::V128Load32Splat { memarg } => dom.contains(memarg.memory),
        Operator::V128Load64Splat { memarg } => dom.contains(memarg.memory),
        Operator::V128Load32Zero { memarg } => dom.contains(memarg.memory),
        Operator::V128Load64Zero { memarg } => dom.contains(memarg.memory),
        Operator::V128Store { memarg } => dom.contains(memarg.memory),
        Operator::V128Load8Lane { memarg, lane } => dom.contains(memarg.memory),
        Operator::V128Load16Lane { memarg, lane } => dom.contains(memarg.memory),
        Operator::V128Load32Lane { memarg, lane } => dom.contains(memarg.memory),
        Operator::V128Load64Lane { memarg, lane } => dom.contains(memarg.memory),
        Operator::V128Store8Lane { memarg, lane } => dom.contains(memarg.memory),
        Operator::V128Store16Lane { memarg, lane } => dom.contains(memarg.memory),
        Operator::V128Store32Lane { memarg, lane } => dom.contains(memarg.memory),
        Operator::V128Store64Lane { memarg, lane } => dom.contains(memarg.memory),
        _ => true,
    }
}

pub open spec fn known_missing(op: Operator) -> bool {
    match op {
        Operator::I64AtomicLoad { .. } => true,
        Operator::I32AtomicRmwAdd { .. } => true,
        Operator::I64AtomicRmwAdd { .. } => true,
        Operator::I32AtomicRmw8AddU { .. } => true,
        Operator::I32AtomicRmw16AddU { .. } => true,
        Operator::I64AtomicRmw8AddU { .. } => true,
        Operator::I64AtomicRmw16AddU { .. } => true,
        Operator::I64AtomicRmw32AddU { .. } => true,
        Operator::I32AtomicRmwSub { .. } => true,
        Operator::I64AtomicRmwSub { .. } => true,
        Operator::I32AtomicRmw8SubU { .. } => true,
        Operator::I32AtomicRmw16SubU { .. } => true,
        Operator::I64AtomicRmw8SubU { .. } => true,
        Operator::I64AtomicRmw16SubU { .. } => true,
        Operator::I64AtomicRmw32SubU { .. } => true,
        Operator::I32AtomicRmwAnd { .. } => true,
        Operator::I64AtomicRmwAnd { .. } => true,
        Operator::I32AtomicRmw8AndU { .. } => true,
        Operator::I32AtomicRmw16AndU { .. } => true,
        Operator::I64AtomicRmw8AndU { .. } => true,
        Operator::I64AtomicRmw16AndU { .. } => true,
        Operator::I64AtomicRmw32AndU { .. } => true,
        Operator::I32AtomicRmwOr { .. } => true,
        Operator::I64AtomicRmwOr { .. } => true,
        Operator::I32AtomicRmw8OrU { .. } => true,
        Operator::I32AtomicRmw16OrU { .. } => true,
        Operator::I64AtomicRmw8OrU { .. } => true,
        Operator::I64AtomicRmw16OrU { .. } => true,
        Operator::I64AtomicRmw32OrU { .. } => true,
        Operator::I32AtomicRmwXor { .. } => true,
        Operator::I64AtomicRmwXor { .. } => true,
        Operator::I32AtomicRmw8XorU { .. } => true,
        Operator::I32AtomicRmw16XorU { .. } => true,
        Operator::I64AtomicRmw8XorU { .. } => true,
        Operator::I64AtomicRmw16XorU { .. } => true,
        Operator::I64AtomicRmw32XorU { .. } => true,
        Operator::I32AtomicRmwXchg { .. } => true,
        Operator::I64AtomicRmwXchg { .. } => true,
        Operator::I32AtomicRmw8XchgU { .. } => true,
        Operator::I32AtomicRmw16XchgU { .. } => true,
        Operator::I64AtomicRmw8XchgU { .. } => true,
        Operator::I64AtomicRmw16XchgU { .. } => true,
        Operator::I64AtomicRmw32XchgU { .. } => true,
        Operator::I32AtomicRmwCmpxchg { .. } => true,
        Operator::I64AtomicRmwCmpxchg { .. } => true,
        Operator::I32AtomicRmw8CmpxchgU { .. } => true,
        Operator::I32AtomicRmw16CmpxchgU { .. } => true,
        Operator::I64AtomicRmw8CmpxchgU { .. } => true,
        Operator::I64AtomicRmw16CmpxchgU { .. } => true,
        Operator::I64AtomicRmw32CmpxchgU { .. } => true,
        _ => false,
    }
}

pub(crate) fn refers_to_memory(op: &Operator) -> (r: bool)
    ensures r == (mem_refs(*op).len() > 0 && !known_missing(*op)),
{
    matches!(
        op,
        Operator::I32Load { .. } |
        Operator::I32Load8S { .. } |
        Operator::I32Load8U { .. } |
        Operator::I32Load16S { .. } |
        Operator::I32Load16U { .. } |
        Operator::I64Load { .. } |
        Operator::I64Load8U { .. } |
        Operator::I64Load8S { .. } |
        Operator::I64Load16U { .. } |
        Operator::I64Load16S { .. } |
        Operator::I64Load32U { .. } |
        Operator::I64Load32S { .. } |
        Operator::F32Load { .. } |
        Operator::F64Load { .. } |
        Operator::V128Load { .. } |
        Operator::I32AtomicLoad { .. } |
        Operator::I32AtomicLoad8U { .. } |
        Operator::I32AtomicLoad16U { .. } |
        Operator::I64AtomicLoad8U { .. } |
        Operator::I64AtomicLoad16U { .. } |
        Operator::I64AtomicLoad32U { .. } |
        Operator::V128Load8Lane { .. } |
        Operator::V128Load16Lane { .. } |
        Operator::V128Load32Lane { .. } |
        Operator::V128Load64Lane { .. } |
        Operator::V128Load8Splat { .. } |
        Operator::V128Load16Splat { .. } |
        Operator::V128Load32Splat { .. } |
        Operator::V128Load64Splat { .. } |
        Operator::V128Load8x8S { .. } |
        Operator::V128Load8x8U { .. } |
        Operator::V128Load16x4U { .. } |
        Operator::V128Load16x4S { .. } |
        Operator::V128Load32Zero { .. } |
        Operator::V128Load32x2S { .. } |
        Operator::V128Load32x2U { .. } |
        Operator::V128Load64Zero { .. } |

        // stores
        Operator::I32Store { .. } |
        Operator::I32Store8 { .. } |
        Operator::I32Store16 { .. } |
        Operator::I64Store { .. } |
        Operator::I64Store8 { .. } |
        Operator::I64Store16 { .. } |
        Operator::I64Store32 { .. } |
        Operator::F32Store { .. } |
        Operator::F64Store { .. } |
        Operator::I32AtomicStore { .. } |
        Operator::I32AtomicStore8 { .. } |
        Operator::I32AtomicStore16 { .. } |
        Operator::I64AtomicStore { .. } |
        Operator::I64AtomicStore8 { .. } |
        Operator::I64AtomicStore16 { .. } |
        Operator::I64AtomicStore32 { .. } |
        Operator::V128Store { .. } |
        Operator::V128Store8Lane { .. } |
        Operator::V128Store16Lane { .. } |
        Operator::V128Store32Lane { .. } |
        Operator::V128Store64Lane { .. } |

        // memory operations
        Operator::MemoryAtomicNotify { .. } |
        Operator::MemoryAtomicWait32 { .. } |
        Operator::MemoryAtomicWait64 { .. } |
        Operator::MemoryGrow { .. } |
        Operator::MemoryFill { .. } |
        Operator::MemoryInit { .. } |
        Operator::MemorySize { .. } |
        Operator::MemoryDiscard { .. } |
        Operator::MemoryCopy { .. }
    )
}

pub(crate) fn update_memory_instr(op: &mut Operator, mapping: &HashMap<u32, u32>)
    requires
        mem_refs(*old(op)).len() > 0, !known_missing(*old(op)),
        mem_refs_in(*old(op), mapping@.dom()),
    ensures
        *final(op) == with_mem_refs(*old(op), |i: u32| mapping@[i]),
{
    match op {
        Operator::I32Load { memarg } => {
            match mapping.get(&(memarg.memory)) {
                Some(new_index) => {
                    memarg.memory = *new_index;
                }
                None => panic!("Attempting to reference a deleted memory, ID: {}", memarg.memory),
            }
        },
        Operator::I32Load8S { memarg } => {
            match mapping.get(&(memarg.memory)) {
                Some(new_index) => {
                    memarg.memory = *new_index;
                }
                None => panic!("Attempting to reference a deleted memory, ID: {}", memarg.memory),
            }
        },
        Operator::I32Load8U { memarg } => {
            match mapping.get(&(memarg.memory)) {
                Some(new_index) => {
                    memarg.memory = *new_index;
                }
                None => panic!("Attempting to reference a deleted memory, ID: {}", memarg.memory),
            }
        },
        Operator::I32Load16S { memarg } => {
            match mapping.get(&(memarg.memory)) {
                Some(new_index) => {
                    memarg.memory = *new_index;
                }
                None => panic!("Attempting to reference a deleted memory, ID: {}", memarg.memory),
            }
        },
        Operator::I32Load16U { memarg } => {
            match mapping.get(&(memarg.memory)) {
                Some(new_index) => {
                    memarg.memory = *new_index;
                }
                None => panic!("Attempting to reference a deleted memory, ID: {}", memarg.memory),
            }
        },
        Operator::I64Load { memarg } => {
            match mapping.get(&(memarg.memory)) {
                Some(new_index) => {
                    memarg.memory = *new_index;
                }
                None => panic!("Attempting to reference a deleted memory, ID: {}", memarg.memory),
            }
        },
        Operator::I64Load8U { memarg } => {
            match mapping.get(&(memarg.memory)) {
                Some(new_index) => {
                    memarg.memory = *new_index;
                }
                None => panic!("Attempting to reference a deleted memory, ID: {}", memarg.memory),
            }
        },
        Operator::I64Load8S { memarg } => {
            match mapping.get(&(memarg.memory)) {
                Some(new_index) => {
                    memarg.memory = *new_index;
                }
                None => panic!("Attempting to reference a deleted memory, ID: {}", memarg.memory),
            }
        },
        Operator::I64Load16U { memarg } => {
            match mapping.get(&(memarg.memory)) {
                Some(new_index) => {
                    memarg.memory = *new_index;
                }
                None => panic!("Attempting to reference a deleted memory, ID: {}", memarg.memory),
            }
        },
        Operator::I64Load16S { memarg } => {
            match mapping.get(&(memarg.memory)) {
                Some(new_index) => {
                    memarg.memory = *new_index;
                }
                None => panic!("Attempting to reference a deleted memory, ID: {}", memarg.memory),
            }
        },
        Operator::I64Load32U { memarg } => {
            match mapping.get(&(memarg.memory)) {
                Some(new_index) => {
                    memarg.memory = *new_index;
                }
                None => panic!("Attempting to reference a deleted memory, ID: {}", memarg.memory),
            }
        },
        Operator::I64Load32S { memarg } => {
            match mapping.get(&(memarg.memory)) {
                Some(new_index) => {
                    memarg.memory = *new_index;
                }
                None => panic!("Attempting to reference a deleted memory, ID: {}", memarg.memory),
            }
        },
        Operator::F32Load { memarg } => {
            match mapping.get(&(memarg.memory)) {
                Some(new_index) => {
                    memarg.memory = *new_index;
                }
                None => panic!("Attempting to reference a deleted memory, ID: {}", memarg.memory),
            }
        },
        Operator::F64Load { memarg } => {
            match mapping.get(&(memarg.memory)) {
                Some(new_index) => {
                    memarg.memory = *new_index;
                }
                None => panic!("Attempting to reference a deleted memory, ID: {}", memarg.memory),
            }
        },
        Operator::V128Load { memarg } => {
            match mapping.get(&(memarg.memory)) {
                Some(new_index) => {
                    memarg.memory = *new_index;
                }
                None => panic!("Attempting to reference a deleted memory, ID: {}", memarg.memory),
            }
        },
        Operator::I32AtomicLoad { memarg } => {
            match mapping.get(&(memarg.memory)) {
                Some(new_index) => {
                    memarg.memory = *new_index;
                }
                None => panic!("Attempting to reference a deleted memory, ID: {}", memarg.memory),
            }
        },
        Operator::I32AtomicLoad8U { memarg } => {
            match mapping.get(&(memarg.memory)) {
                Some(new_index) => {
                    memarg.memory = *new_index;
                }
                None => panic!("Attempting to reference a deleted memory, ID: {}", memarg.memory),
            }
        },
        Operator::I32AtomicLoad16U { memarg } => {
            match mapping.get(&(memarg.memory)) {
                Some(new_index) => {
                    memarg.memory = *new_index;
                }
                None => panic!("Attempting to reference a deleted memory, ID: {}", memarg.memory),
            }
        },
        Operator::I64AtomicLoad8U { memarg } => {
            match mapping.get(&(memarg.memory)) {
                Some(new_index) => {
                    memarg.memory = *new_index;
                }
                None => panic!("Attempting to reference a deleted memory, ID: {}", memarg.memory),
            }
        },
        Operator::I64AtomicLoad16U { memarg } => {
            match mapping.get(&(memarg.memory)) {
                Some(new_index) => {
                    memarg.memory = *new_index;
                }
                None => panic!("Attempting to reference a deleted memory, ID: {}", memarg.memory),
            }
        },
        Operator::I64AtomicLoad32U { memarg } => {
            match mapping.get(&(memarg.memory)) {
                Some(new_index) => {
                    memarg.memory = *new_index;
                }
                None => panic!("Attempting to reference a deleted memory, ID: {}", memarg.memory),
            }
        },
        Operator::V128Load8Lane { memarg, .. } => {
            match mapping.get(&(memarg.memory)) {
                Some(new_index) => {
                    memarg.memory = *new_index;
                }
                None => panic!("Attempting to reference a deleted memory, ID: {}", memarg.memory),
            }
        },
        Operator::V128Load16Lane { memarg, .. } => {
            match mapping.get(&(memarg.memory)) {
                Some(new_index) => {
                    memarg.memory = *new_index;
                }
                None => panic!("Attempting to reference a deleted memory, ID: {}", memarg.memory),
            }
        },
        Operator::V128Load32Lane { memarg, .. } => {
            match mapping.get(&(memarg.memory)) {
                Some(new_index) => {
                    memarg.memory = *new_index;
                }
                None => panic!("Attempting to reference a deleted memory, ID: {}", memarg.memory),
            }
        },
        Operator::V128Load64Lane { memarg, .. } => {
            match mapping.get(&(memarg.memory)) {
                Some(new_index) => {
                    memarg.memory = *new_index;
                }
                None => panic!("Attempting to reference a deleted memory, ID: {}", memarg.memory),
            }
        },
        Operator::V128Load8Splat { memarg } => {
            match mapping.get(&(memarg.memory)) {
                Some(new_index) => {
                    memarg.memory = *new_index;
                }
                None => panic!("Attempting to reference a deleted memory, ID: {}", memarg.memory),
            }
        },
        Operator::V128Load16Splat { memarg } => {
            match mapping.get(&(memarg.memory)) {
                Some(new_index) => {
                    memarg.memory = *new_index;
                }
                None => panic!("Attempting to reference a deleted memory, ID: {}", memarg.memory),
            }
        },
        Operator::V128Load32Splat { memarg } => {
            match mapping.get(&(memarg.memory)) {
                Some(new_index) => {
                    memarg.memory = *new_index;
                }
                None => panic!("Attempting to reference a deleted memory, ID: {}", memarg.memory),
            }
        },
        Operator::V128Load64Splat { memarg } => {
            match mapping.get(&(memarg.memory)) {
                Some(new_index) => {
                    memarg.memory = *new_index;
                }
                None => panic!("Attempting to reference a deleted memory, ID: {}", memarg.memory),
            }
        },
        Operator::V128Load8x8S { memarg } => {
            match mapping.get(&(memarg.memory)) {
                Some(new_index) => {
                    memarg.memory = *new_index;
                }
                None => panic!("Attempting to reference a deleted memory, ID: {}", memarg.memory),
            }
        },
        Operator::V128Load8x8U { memarg } => {
            match mapping.get(&(memarg.memory)) {
                Some(new_index) => {
                    memarg.memory = *new_index;
                }
                None => panic!("Attempting to reference a deleted memory, ID: {}", memarg.memory),
            }
        },
        Operator::V128Load16x4U { memarg } => {
            match mapping.get(&(memarg.memory)) {
                Some(new_index) => {
                    memarg.memory = *new_index;
                }
                None => panic!("Attempting to reference a deleted memory, ID: {}", memarg.memory),
            }
        },
        Operator::V128Load16x4S { memarg } => {
            match mapping.get(&(memarg.memory)) {
                Some(new_index) => {
                    memarg.memory = *new_index;
                }
                None => panic!("Attempting to reference a deleted memory, ID: {}", memarg.memory),
            }
        },
        Operator::V128Load32Zero { memarg } => {
            match mapping.get(&(memarg.memory)) {
                Some(new_index) => {
                    memarg.memory = *new_index;
                }
                None => panic!("Attempting to reference a deleted memory, ID: {}", memarg.memory),
            }
        },
        Operator::V128Load32x2S { memarg } => {
            match mapping.get(&(memarg.memory)) {
                Some(new_index) => {
                    memarg.memory = *new_index;
                }
                None => panic!("Attempting to reference a deleted memory, ID: {}", memarg.memory),
            }
        },
        Operator::V128Load32x2U { memarg } => {
            match mapping.get(&(memarg.memory)) {
                Some(new_index) => {
                    memarg.memory = *new_index;
                }
                None => panic!("Attempting to reference a deleted memory, ID: {}", memarg.memory),
            }
        },
        Operator::V128Load64Zero { memarg } => {
            match mapping.get(&(memarg.memory)) {
                Some(new_index) => {
                    memarg.memory = *new_index;
                }
                None => panic!("Attempting to reference a deleted memory, ID: {}", memarg.memory),
            }
        },
        Operator::I32Store {memarg} => {
            match mapping.get(&(memarg.memory)) {
                Some(new_index) => {
                    memarg.memory = *new_index;
                }
                None => panic!("Attempting to reference a deleted memory, ID: {}", memarg.memory),
            }
        },
        Operator::I32Store8 {memarg} => {
            match mapping.get(&(memarg.memory)) {
                Some(new_index) => {
                    memarg.memory = *new_index;
                }
                None => panic!("Attempting to reference a deleted memory, ID: {}", memarg.memory),
            }
        },
        Operator::I32Store16 {memarg} => {
            match mapping.get(&(memarg.memory)) {
                Some(new_index) => {
                    memarg.memory = *new_index;
                }
                None => panic!("Attempting to reference a deleted memory, ID: {}", memarg.memory),
            }
        },
        Operator::I64Store {memarg} => {
            match mapping.get(&(memarg.memory)) {
                Some(new_index) => {
                    memarg.memory = *new_index;
                }
                None => panic!("Attempting to reference a deleted memory, ID: {}", memarg.memory),
            }
        },
        Operator::I64Store8 {memarg} => {
            match mapping.get(&(memarg.memory)) {
                Some(new_index) => {
                    memarg.memory = *new_index;
                }
                None => panic!("Attempting to reference a deleted memory, ID: {}", memarg.memory),
            }
        },
        Operator::I64Store16 {memarg} => {
            match mapping.get(&(memarg.memory)) {
                Some(new_index) => {
                    memarg.memory = *new_index;
                }
                None => panic!("Attempting to reference a deleted memory, ID: {}", memarg.memory),
            }
        },
        Operator::I64Store32 {memarg} => {
            match mapping.get(&(memarg.memory)) {
                Some(new_index) => {
                    memarg.memory = *new_index;
                }
                None => panic!("Attempting to reference a deleted memory, ID: {}", memarg.memory),
            }
        },
        Operator::F32Store {memarg} => {
            match mapping.get(&(memarg.memory)) {
                Some(new_index) => {
                    memarg.memory = *new_index;
                }
                None => panic!("Attempting to reference a deleted memory, ID: {}", memarg.memory),
            }
        },
        Operator::F64Store {memarg} => {
            match mapping.get(&(memarg.memory)) {
                Some(new_index) => {
                    memarg.memory = *new_index;
                }
                None => panic!("Attempting to reference a deleted memory, ID: {}", memarg.memory),
            }
        },
        Operator::I32AtomicStore {memarg} => {
            match mapping.get(&(memarg.memory)) {
                Some(new_index) => {
                    memarg.memory = *new_index;
                }
                None => panic!("Attempting to reference a deleted memory, ID: {}", memarg.memory),
            }
        },
        Operator::I32AtomicStore8 {memarg} => {
            match mapping.get(&(memarg.memory)) {
                Some(new_index) => {
                    memarg.memory = *new_index;
                }
                None => panic!("Attempting to reference a deleted memory, ID: {}", memarg.memory),
            }
        },
        Operator::I32AtomicStore16 {memarg} => {
            match mapping.get(&(memarg.memory)) {
                Some(new_index) => {
                    memarg.memory = *new_index;
                }
                None => panic!("Attempting to reference a deleted memory, ID: {}", memarg.memory),
            }
        },
        Operator::I64AtomicStore {memarg} => {
            match mapping.get(&(memarg.memory)) {
                Some(new_index) => {
                    memarg.memory = *new_index;
                }
                None => panic!("Attempting to reference a deleted memory, ID: {}", memarg.memory),
            }
        },
        Operator::I64AtomicStore8 {memarg} => {
            match mapping.get(&(memarg.memory)) {
                Some(new_index) => {
                    memarg.memory = *new_index;
                }
                None => panic!("Attempting to reference a deleted memory, ID: {}", memarg.memory),
            }
        },
        Operator::I64AtomicStore16 {memarg} => {
            match mapping.get(&(memarg.memory)) {
                Some(new_index) => {
                    memarg.memory = *new_index;
                }
                None => panic!("Attempting to reference a deleted memory, ID: {}", memarg.memory),
            }
        },
        Operator::I64AtomicStore32 {memarg} => {
            match mapping.get(&(memarg.memory)) {
                Some(new_index) => {
                    memarg.memory = *new_index;
                }
                None => panic!("Attempting to reference a deleted memory, ID: {}", memarg.memory),
            }
        },
        Operator::V128Store {memarg} => {
            match mapping.get(&(memarg.memory)) {
                Some(new_index) => {
                    memarg.memory = *new_index;
                }
                None => panic!("Attempting to reference a deleted memory, ID: {}", memarg.memory),
            }
        },
        Operator::V128Store8Lane {memarg, ..} => {
            match mapping.get(&(memarg.memory)) {
                Some(new_index) => {
                    memarg.memory = *new_index;
                }
                None => panic!("Attempting to reference a deleted memory, ID: {}", memarg.memory),
            }
        },
        Operator::V128Store16Lane {memarg, ..} => {
            match mapping.get(&(memarg.memory)) {
                Some(new_index) => {
                    memarg.memory = *new_index;
                }
                None => panic!("Attempting to reference a deleted memory, ID: {}", memarg.memory),
            }
        },
        Operator::V128Store32Lane {memarg, ..} => {
            match mapping.get(&(memarg.memory)) {
                Some(new_index) => {
                    memarg.memory = *new_index;
                }
                None => panic!("Attempting to reference a deleted memory, ID: {}", memarg.memory),
            }
        },
        Operator::V128Store64Lane {memarg, ..} => {
            match mapping.get(&(memarg.memory)) {
                Some(new_index) => {
                    memarg.memory = *new_index;
                }
                None => panic!("Attempting to reference a deleted memory, ID: {}", memarg.memory),
            }
        },
        Operator::MemoryAtomicNotify {memarg} => {
            match mapping.get(&(memarg.memory)) {
                Some(new_index) => {
                    memarg.memory = *new_index;
                }
                None => panic!("Attempting to reference a deleted memory, ID: {}", memarg.memory),
            }
        },
        Operator::MemoryAtomicWait32 {memarg} => {
            match mapping.get(&(memarg.memory)) {
                Some(new_index) => {
                    memarg.memory = *new_index;
                }
                None => panic!("Attempting to reference a deleted memory, ID: {}", memarg.memory),
            }
        },
        Operator::MemoryAtomicWait64 {memarg} => {
            match mapping.get(&(memarg.memory)) {
                Some(new_index) => {
                    memarg.memory = *new_index;
                }
                None => panic!("Attempting to reference a deleted memory, ID: {}", memarg.memory),
            }
        },
        Operator::MemoryGrow {mem} => {
            match mapping.get(mem) {
                Some(new_index) => {
                    *mem = *new_index;
                }
                None => panic!("Attempting to reference a deleted memory, ID: {}", mem),
            }
        },
        Operator::MemoryFill {mem} => {
            match mapping.get(mem) {
                Some(new_index) => {
                    *mem = *new_index;
                }
                None => panic!("Attempting to reference a deleted memory, ID: {}", mem),
            }
        },
        Operator::MemoryInit {mem, ..} => {
            match mapping.get(mem) {
                Some(new_index) => {
                    *mem = *new_index;
                }
                None => panic!("Attempting to reference a deleted memory, ID: {}", mem),
            }
        },
        Operator::MemorySize {mem} => {
            match mapping.get(mem) {
                Some(new_index) => {
                    *mem = *new_index;
                }
                None => panic!("Attempting to reference a deleted memory, ID: {}", mem),
            }
        },
        Operator::MemoryDiscard {mem} => {
            match mapping.get(mem) {
                Some(new_index) => {
                    *mem = *new_index;
                }
                None => panic!("Attempting to reference a deleted memory, ID: {}", mem),
            }
        },
        Operator::MemoryCopy {src_mem, dst_mem} => {
            match mapping.get(src_mem) {
                Some(new_index) => {
                    *src_mem = *new_index;
                }
                None => panic!("Attempting to reference a deleted memory, ID: {}", src_mem),
            }
            match mapping.get(dst_mem) {
                Some(new_index) => {
                    *dst_mem = *new_index;
                }
                None => panic!("Attempting to reference a deleted memory, ID: {}", dst_mem),
            }
        },
        _ => panic!("Operation doesn't need to be checked for memory IDs!"),
    }
}
}
fn main(){}
