use wirm::ir::id::*;
use wirm::ir::module::module_globals::{Global, GlobalKind, LocalGlobal};
use wirm::ir::types::{InitExpr, InitInstr, Value};
use wirm::iterator::module_iterator::ModuleIterator;
use wirm::iterator::iterator_trait::IteratingInstrumenter;
use wirm::{DataType, Module};
fn show(tag: &str, bytes: &[u8]) {
    let v = wasmparser::Validator::new_with_features(wasmparser::WasmFeatures::all()).validate_all(bytes);
    println!("--- {tag}: valid={}", v.is_ok());
    if let Err(e) = &v { println!("    validation error: {e}"); }
    match wasmprinter::print_bytes(bytes) { Ok(t) => println!("{t}"), Err(e) => println!("    print error {e}") }
}
fn main() {
    // row 1: atomic rmw on memory 1, then an imported memory is added (shifts local memories by one)
    let w = wat::parse_str(r#"(module (memory 1 1 shared) (memory $m1 1 1 shared)
        (func (param i32 i32) (result i32) local.get 0 local.get 1 i32.atomic.rmw.add $m1
              drop local.get 0 i32.load $m1))"#).unwrap();
    let mut m = Module::parse(&w, true).unwrap();
    m.add_import_memory("env".into(), "im".into(), wasmparser::MemoryType { memory64: false, shared: true, initial: 1, maximum: Some(1), page_size_log2: None });
    show("row1", &m.encode());

    // row 8: iterator-level add_global, then add_imported_global
    let w = wat::parse_str(r#"(module (func nop))"#).unwrap();
    let mut m = Module::parse(&w, false).unwrap();
    let g = Global::new(GlobalKind::Local(LocalGlobal { global_id: GlobalID(0),
        ty: wasmparser::GlobalType { content_type: wasmparser::ValType::I32, mutable: true, shared: false },
        init_expr: InitExpr::new(vec![InitInstr::Value(Value::I32(5))]) }), None);
    let gid = { let mut it = ModuleIterator::new(&mut m, &vec![]); it.add_global(g) };
    let (igid, _) = m.add_imported_global("env".into(), "ig".into(), DataType::I64, false, false);
    println!("iterator global id {:?}, imported global id {:?}", gid, igid);
    show("row8", &m.encode());
}
