"""Minimal Rust lexer + item slicer used by the extractor.

The lexer understands line/block (nested) comments, string / raw string / byte string
literals, char literals vs lifetimes, identifiers, numbers and punctuation.  The item slicer
walks the token stream of a file (or of an impl/trait body) and reports items by name, never by
line number.
"""
import re

class Tok:
    __slots__ = ("kind", "text", "start", "end")
    def __init__(self, kind, text, start, end):
        self.kind = kind; self.text = text; self.start = start; self.end = end
    def __repr__(self):
        return "Tok(%s,%r,%d)" % (self.kind, self.text, self.start)

_ident_re = re.compile(r"[A-Za-z_][A-Za-z0-9_]*")
_num_re = re.compile(r"[0-9][0-9A-Za-z_]*(\.[0-9][0-9A-Za-z_]*)?")
_raw_re = re.compile(r"b?r(#*)\"")

class LexError(Exception):
    pass

def lex(src):
    """Return the full token list (including whitespace and comments)."""
    toks = []
    i = 0
    n = len(src)
    while i < n:
        c = src[i]
        if c.isspace():
            j = i + 1
            while j < n and src[j].isspace():
                j += 1
            toks.append(Tok("ws", src[i:j], i, j)); i = j; continue
        if src.startswith("//", i):
            j = src.find("\n", i)
            if j < 0: j = n
            toks.append(Tok("comment", src[i:j], i, j)); i = j; continue
        if src.startswith("/*", i):
            d = 0; j = i
            while j < n:
                if src.startswith("/*", j): d += 1; j += 2
                elif src.startswith("*/", j):
                    d -= 1; j += 2
                    if d == 0: break
                else: j += 1
            toks.append(Tok("comment", src[i:j], i, j)); i = j; continue
        m = _raw_re.match(src, i)
        if m:
            hashes = m.group(1)
            close = '"' + hashes
            j = src.find(close, m.end())
            if j < 0: raise LexError("unterminated raw string at %d" % i)
            j += len(close)
            toks.append(Tok("str", src[i:j], i, j)); i = j; continue
        if c == '"' or (c == 'b' and i + 1 < n and src[i + 1] == '"'):
            j = i + (2 if c == 'b' else 1)
            while j < n and src[j] != '"':
                if src[j] == '\\': j += 2
                else: j += 1
            j += 1
            toks.append(Tok("str", src[i:j], i, j)); i = j; continue
        if c == "'" or (c == 'b' and i + 1 < n and src[i + 1] == "'"):
            k = i + (1 if c == 'b' else 0)
            # char literal: 'x' or '\..'; lifetime: 'ident not followed by '
            if k + 1 < n and src[k + 1] == '\\':
                j = k + 2
                while j < n and src[j] != "'": j += 1
                j += 1
                toks.append(Tok("char", src[i:j], i, j)); i = j; continue
            if k + 2 < n and src[k + 2] == "'":
                j = k + 3
                toks.append(Tok("char", src[i:j], i, j)); i = j; continue
            m = _ident_re.match(src, k + 1)
            if m and c == "'":
                toks.append(Tok("lifetime", src[i:m.end()], i, m.end())); i = m.end(); continue
            raise LexError("bad quote at %d" % i)
        m = _ident_re.match(src, i)
        if m:
            toks.append(Tok("ident", m.group(0), i, m.end())); i = m.end(); continue
        m = _num_re.match(src, i)
        if m:
            toks.append(Tok("num", m.group(0), i, m.end())); i = m.end(); continue
        # multi-char punctuation that matters to us
        for p in ("..=", "...", "<<=", ">>=", "->", "=>", "::", "==", "!=", "<=", ">=", "&&", "||",
                  "+=", "-=", "*=", "/=", "%=", "^=", "&=", "|=", "<<", ">>", ".."):
            if src.startswith(p, i):
                toks.append(Tok("punct", p, i, i + len(p))); i += len(p); break
        else:
            toks.append(Tok("punct", c, i, i + 1)); i += 1
    return toks

def sig(toks):
    """Significant tokens only (no whitespace/comments)."""
    return [t for t in toks if t.kind not in ("ws", "comment")]

OPEN = {"(": ")", "[": "]", "{": "}"}
CLOSE = {")": "(", "]": "[", "}": "{"}

def match_close(st, i):
    """st: significant tokens, st[i] is an opening bracket; return index of its closer."""
    d = 0
    for j in range(i, len(st)):
        t = st[j]
        if t.kind == "punct":
            if t.text in OPEN: d += 1
            elif t.text in CLOSE:
                d -= 1
                if d == 0: return j
    raise LexError("unbalanced bracket at offset %d" % st[i].start)

class Item:
    def __init__(self, **kw):
        self.__dict__.update(kw)
    def __repr__(self):
        return "Item(%s %s %s)" % (self.kind, self.name, self.header if self.kind == "impl" else "")

ITEM_KW = ("fn", "struct", "enum", "union", "trait", "impl", "type", "const", "static", "mod", "use",
           "macro_rules", "extern")
MODIFIERS = ("pub", "unsafe", "async", "default",
             # verus function modes (generated files are parsed with the same slicer)
             "proof", "spec", "open", "closed", "exec", "broadcast", "uninterp", "tracked", "ghost")

def norm(s):
    """whitespace-insensitive normal form of a header / selector"""
    return "".join(t.text for t in sig(lex(s)))

def items_in(src, st, lo, hi):
    """Parse items among significant tokens st[lo:hi] (a file, or the inside of an impl/trait)."""
    out = []
    i = lo
    while i < hi:
        t = st[i]
        attrs = []
        item_attr_start = None
        # attributes
        while t.kind == "punct" and t.text == "#":
            j = i + 1
            if st[j].text == "!": j += 1
            if st[j].text != "[":
                break
            k = match_close(st, j)
            if item_attr_start is None: item_attr_start = t.start
            attrs.append(src[t.start:st[k].end])
            i = k + 1
            if i >= hi: return out
            t = st[i]
        start_i = i
        # modifiers / visibility
        while i < hi and st[i].kind == "ident" and st[i].text in MODIFIERS:
            i += 1
            if st[i - 1].text == "pub" and i < hi and st[i].text == "(":
                i = match_close(st, i) + 1
        if i >= hi: break
        t = st[i]
        # `const fn`, `const unsafe fn`, `extern "C" fn`
        if t.kind == "ident" and t.text == "const" and i + 1 < hi and st[i + 1].text in ("fn", "unsafe", "async"):
            i += 1; t = st[i]
            while t.text in ("unsafe", "async"): i += 1; t = st[i]
        if t.kind == "ident" and t.text == "extern" and st[i + 1].kind == "str" and st[i + 2].text == "fn":
            i += 2; t = st[i]
        if not (t.kind == "ident" and t.text in ITEM_KW):
            # not an item start (stray token, e.g. macro invocation `foo!{..}` or `;`); skip one
            # token, skipping balanced groups
            if t.kind == "punct" and t.text in OPEN:
                i = match_close(st, i) + 1
            else:
                i += 1
            continue
        kw = t.text
        kw_i = i
        name = None
        header = None
        # find end
        j = i + 1
        body_open = None
        if kw in ("use", "const", "static", "type"):
            d = 0
            while True:
                x = st[j]
                if x.kind == "punct":
                    if x.text in OPEN: d += 1
                    elif x.text in CLOSE: d -= 1
                    elif x.text == ";" and d == 0: break
                j += 1
            end_i = j
        else:
            d = 0
            while True:
                x = st[j]
                if x.kind == "punct":
                    if x.text == "{" and d == 0:
                        body_open = j; end_i = match_close(st, j); break
                    if x.text in OPEN: d += 1
                    elif x.text in CLOSE: d -= 1
                    elif x.text == ";" and d == 0:
                        end_i = j; break
                j += 1
        if kw == "impl":
            header = " ".join(x.text for x in st[kw_i:body_open]) if body_open else None
        elif kw == "macro_rules":
            name = st[kw_i + 2].text if st[kw_i + 1].text == "!" else None
        elif kw in ("use", "extern"):
            name = None
        else:
            name = st[kw_i + 1].text
        it = Item(kind=kw, name=name, header=header, attrs=attrs,
                  start=st[start_i].start, end=st[end_i].end,
                  attr_start=item_attr_start if item_attr_start is not None else st[start_i].start,
                  tok_lo=start_i, tok_hi=end_i + 1, kw_i=kw_i,
                  body_open=body_open, body_close=end_i if body_open is not None else None,
                  children=None)
        if kw in ("impl", "trait") and body_open is not None:
            it.children = items_in(src, st, body_open + 1, end_i)
        out.append(it)
        i = end_i + 1
    return out

class SourceFile:
    def __init__(self, path):
        self.path = path
        self.src = open(path).read()
        self.toks = lex(self.src)
        self.st = sig(self.toks)
        self.items = items_in(self.src, self.st, 0, len(self.st))

    def text(self, it):
        return self.src[it.start:it.end]

    def find_top(self, kind, name):
        r = [it for it in self.items if it.kind == kind and it.name == name]
        return r

    def find_impls(self, header):
        h = norm(header)
        return [it for it in self.items if it.kind == "impl" and it.header is not None and norm(it.header) == h]

    def find_trait(self, name):
        return [it for it in self.items if it.kind == "trait" and it.name == name]
