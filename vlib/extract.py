"""Extractor: turns a unit spec (template + //@ directives) into one Verus file whose function
bodies are copied from /repo/src at run time.

Directive grammar (each on its own line, leading whitespace allowed):

  //@ item <file> :: <selector> [| opt,opt,...]
        selector:  fn NAME | struct NAME | enum NAME | type NAME | const NAME | trait NAME
                 | impl <header text> :: fn NAME | trait NAME :: fn NAME | impl <header text>
        opts: r3 (split or-pattern arms), lift (Self::f( -> f( ), decl (signature only, body -> ;),
              nopub (drop visibility), novis
  //@ ret NAME              name the return value:  -> T   becomes   -> (NAME: T)
  //@ derive +A -B          add / remove derive entries (types)
  //@ attr TEXT             attribute line(s) emitted before the item
  //@ sig                   following plain lines go between signature and body
  //@ entry                 ... right after the body's opening brace
  //@ tail                  ... immediately before the tail expression (last expression of the body)
  //@ exit                  ... immediately before the body's closing brace (functions returning `()`)
  //@ tail-after            ... (R32) AFTER the tail expression has been evaluated: `TAIL` becomes `let __tail_r = TAIL; <text> __tail_r`
  //@ loop-end N            ... immediately before the closing brace of the N-th loop's body
  //@ loop-after N          ... immediately after the N-th loop (a statement position)
  //@ forward "CALL" => "EXPR" via FILE :: SELECTOR == "BODY"   rule R20: CALL is a call of the forwarding method SELECTOR whose body is
                            (checked on every run) exactly BODY; it is replaced by EXPR
  //@ for-next N into=F next=G [iter=NAME]   rule R18: the N-th loop, a `for`, is written as `loop { match G(&mut it) {..} }`
  //@ call-range "START" [.. "END"] => "CALL"   (R16, on a whole fn item) the statements from the one that starts at START through the one that
                            starts at END - a region verified on its own against the same text - are replaced by CALL
  //@ region-closure "NAME"   rule R30: like region-start, but the region is the body of the closure bound by `let [mut] NAME = |..| {..};`
  //@ closure-calls "NAME" => "FN" with "EXTRA, .."   rule R30: the binding is removed and every call NAME(ARGS) becomes FN(ARGS, EXTRA, ..)
  //@ encode-calls "PREFIX" => "FN"   rule R26: `PREFIX::V(args).encode(&mut b)` is written as the call `FN_V(args, &mut b)` of a named emitter
  //@ region-loop-iterable "TEXT" [#k]   rule R23: like region-start, but only the ITERABLE expression of the `for` statement that starts at
                            TEXT becomes (the tail expression of) the synthetic function: a contract on WHICH iterations there are
  //@ region-loop-body "TEXT" [#k]   rule R19: like region-start, but only the BODY of the loop that starts at TEXT (one iteration);
                            a `continue` of that loop becomes `return <epilogue>`
  //@ region-call "ANCHOR" [#k] => "CALL"   inside a region: the statement that starts at (the k-th occurrence of) ANCHOR - itself a region
                            verified on its own - is replaced by CALL
  //@ region-continue EXPR   (R19) in a region of statements of a loop body: a `continue` of that loop becomes `return EXPR`
  //@ region-start "TEXT" / region-end "TEXT" / region-as HEADER / region-prologue TEXT / region-epilogue TEXT
                            rule R16: the block statement of the fn that starts at TEXT becomes the body of a
                            synthetic function with the declared header (nested fn items are cut; select them with
                            `<outer fn selector> :: fn NAME`)
  //@ loop N [iter=NAME]    ... between the N-th loop header and its body (N counts for/while/loop
                            keywords in textual order, from 1); iter=NAME names a for-loop iterator
  //@ before "TEXT" [#k]    ... before the k-th (default: only) occurrence of TEXT in the body
  //@ after "TEXT" [#k]     ... after that occurrence (TEXT should end at a statement end)
  //@ subst "A" => "B"      declared textual substitution inside the copied item (rule R11; listed
                            in evidence with both texts; must match exactly once unless #all;
                            `subst?` = apply if present, skip silently if the text is absent)
  //@ end                   end of the item block

Plain lines outside item blocks are copied verbatim (they are specification text: spec fns, lemmas,
impl/trait wrappers).  A trailing `//# label` on any emitted line names an obligation.

Conditional text:  //@ if-open FINDING-ID ... //@ else ... //@ endif   selects on known_findings.json.
"""
import hashlib, os, re
from .rustlex import SourceFile, lex, sig, match_close, norm, items_in, LexError, Tok, OPEN, CLOSE

REPO_SRC = "/repo"

class ExtractError(Exception):
    """Anchor lost / unsupported construct: the check must exit 2 (undecided), never 1."""

_file_cache = {}
def source(path):
    full = os.path.join(REPO_SRC, path)
    if full not in _file_cache:
        if not os.path.exists(full):
            raise ExtractError("source file missing: %s" % path)
        try:
            _file_cache[full] = SourceFile(full)
        except LexError as e:
            raise ExtractError("cannot lex %s: %s" % (path, e))
    return _file_cache[full]

def clear_cache():
    _file_cache.clear()

# ---------------------------------------------------------------------------------------------
# locating items

def locate(path, selector):
    sf = source(path)
    parts = [p.strip() for p in selector.split("::")]
    # re-join impl headers that themselves contain `::` : selector form is `impl H :: fn N`, split at
    # the LAST ` :: fn ` occurrence instead
    m = re.match(r"^(.+\bfn\s+\w+)\s+::\s+fn\s+(\w+)$", selector.strip())
    if m:
        # a fn item nested in the body of another fn: `<outer fn selector> :: fn NAME`
        sf, outer_it = locate(path, m.group(1))
        found = _nested_fns(sf, outer_it, m.group(2))
        if len(found) != 1:
            raise ExtractError("anchor lost: %d nested `fn %s` in %s %s" % (len(found), m.group(2), path, m.group(1)))
        return sf, found[0]
    m = re.match(r"^(impl\b.+?|trait\s+\w+)\s+::\s+fn\s+(\w+)$", selector.strip())
    if m:
        outer, name = m.group(1), m.group(2)
        if outer.startswith("impl"):
            blocks = sf.find_impls(outer)
        else:
            blocks = sf.find_trait(outer.split()[1])
        if not blocks:
            raise ExtractError("anchor lost: no `%s` in %s" % (outer, path))
        found = [(b, c) for b in blocks for c in (b.children or []) if c.kind == "fn" and c.name == name]
        if len(found) != 1:
            raise ExtractError("anchor lost: %d matches for `%s` in %s" % (len(found), selector, path))
        return sf, found[0][1]
    m = re.match(r"^(fn|struct|enum|type|const|trait|static)\s+(\w+)$", selector.strip())
    if m:
        found = sf.find_top(m.group(1), m.group(2))
        if len(found) != 1:
            raise ExtractError("anchor lost: %d matches for `%s` in %s" % (len(found), selector, path))
        return sf, found[0]
    m = re.match(r"^impl\b.+$", selector.strip())
    if m:
        found = sf.find_impls(selector.strip())
        if len(found) != 1:
            raise ExtractError("anchor lost: %d matches for `%s` in %s" % (len(found), selector, path))
        return sf, found[0]
    raise ExtractError("bad selector: %s" % selector)

def _stmt_extent(st_, i0):
    """index of the last significant token of the statement that starts at st_[i0]: a block statement (for / while / loop /
    if [else ..] / match / block) ends at its closing brace, anything else at the `;` at depth 0"""
    if st_[i0].text in ("for", "while", "loop", "if", "match", "{"):
        j = i0 + (0 if st_[i0].text == "{" else 1); d = 0
        if st_[i0].text == "for":
            while True:
                y = st_[j]
                if y.kind == "punct" and y.text in OPEN: j = match_close(st_, j) + 1; continue
                if y.kind == "ident" and y.text == "in": break
                j += 1
        while True:
            x = st_[j]
            if x.kind == "punct":
                if x.text == "{" and d == 0: break
                if x.text in OPEN: d += 1
                elif x.text in CLOSE: d -= 1
            j += 1
        c = match_close(st_, j)
        while st_[i0].text == "if" and c + 1 < len(st_) and st_[c + 1].text == "else":
            j = c + 2
            while st_[j].text != "{": j += 1
            c = match_close(st_, j)
        return c
    j = i0; d = 0
    while True:
        x = st_[j]
        if x.kind == "punct":
            if x.text in OPEN: j = match_close(st_, j) + 1; continue
            if x.text == ";": return j
        j += 1

def _nested_fns(sf, outer, name=None):
    """fn items declared inside the body of fn item `outer` (any depth); -> list of Item-like objects"""
    from .rustlex import Item
    st = sf.st
    out = []
    if outer.body_open is None: return out
    j = outer.body_open + 1
    while j < outer.body_close:
        x = st[j]
        if x.kind == "ident" and x.text == "fn" and st[j + 1].kind == "ident" and st[j - 1].kind == "punct" and st[j - 1].text in ("{", "}", ";"):
            k = j + 2; d = 0
            while True:
                y = st[k]
                if y.kind == "punct":
                    if y.text == "{" and d == 0: break
                    if y.text in OPEN: d += 1
                    elif y.text in CLOSE: d -= 1
                k += 1
            c = match_close(st, k)
            if name is None or st[j + 1].text == name:
                out.append(Item(kind="fn", name=st[j + 1].text, header=None, attrs=[], start=st[j].start, end=st[c].end,
                                attr_start=st[j].start, tok_lo=j, tok_hi=c + 1, kw_i=j, body_open=k, body_close=c, children=None))
            j = c + 1; continue
        j += 1
    return out

# ---------------------------------------------------------------------------------------------
# token helpers on a text fragment

def _sig_with_index(text):
    toks = lex(text)
    return toks, sig(toks)

def _stmt_start(st, i):
    """is significant-token index i at the start of a statement?"""
    if i == 0: return True
    p = st[i - 1]
    return p.kind == "punct" and p.text in ("{", "}", ";")

def _split_top_commas(st, lo, hi):
    """split st[lo:hi] at top-level commas -> list of (lo,hi)"""
    out = []; d = 0; s = lo
    for j in range(lo, hi):
        t = st[j]
        if t.kind == "punct":
            if t.text in OPEN: d += 1
            elif t.text in CLOSE: d -= 1
            elif t.text == "," and d == 0:
                out.append((s, j)); s = j + 1
    if s < hi: out.append((s, hi))
    return out

LOG_MACROS = ("warn", "error", "info", "debug", "trace")

def apply_edits(text, edits):
    """edits: list of (start, end, replacement) non-overlapping"""
    out = []; pos = 0
    # stable: edits at the same position keep the order in which they were requested
    for s, e, r in sorted(edits, key=lambda x: (x[0], x[1])):
        if s < pos: raise ExtractError("overlapping rewrite")
        out.append(text[pos:s]); out.append(r); pos = e
    out.append(text[pos:])
    return "".join(out)

def rule_r12(text, kind, in_trait, rules):
    """normalise visibility to `pub` (a single-file crate has one module, so visibility has no effect
    on behaviour; Verus treats a type with a private field as opaque in contracts of pub functions):
    `pub(crate)`/`pub(super)` -> `pub`; private struct fields, types and inherent/free fns get `pub`.
    Methods of traits / trait impls never carry visibility and are left alone."""
    toks, st = _sig_with_index(text)
    edits = []
    def vis_at(i):
        """if st[i] starts a visibility, return (start, end) offsets, else None"""
        t = st[i]
        if t.kind == "ident" and t.text == "pub":
            end = t.end
            if i + 1 < len(st) and st[i + 1].text == "(" and st[i + 2].kind == "ident" and st[i + 2].text in ("crate", "super", "self", "in"):
                end = st[match_close(st, i + 1)].end
            return (t.start, end)
        return None
    # item-level visibility
    if not in_trait:
        v = vis_at(0)
        if v is None:
            edits.append((st[0].start, st[0].start, "pub "))
        elif text[v[0]:v[1]] != "pub":
            edits.append((v[0], v[1], "pub"))
    if kind == "struct":
        # find the field list: first `{` or `(` at depth 0 after the name (skipping generics)
        j = 0; ang = 0
        while j < len(st):
            x = st[j]
            if x.kind == "punct":
                if x.text == "<": ang += 1
                elif x.text == ">": ang -= 1
                elif x.text == ">>": ang -= 2
                elif x.text in ("{", "(") and ang == 0: break
                elif x.text == ";" and ang == 0: j = None; break
            j += 1
        if j is not None and j < len(st):
            c = match_close(st, j)
            k = j + 1
            at_field = True
            d = 0; ang = 0
            while k < c:
                x = st[k]
                if at_field:
                    # skip attributes
                    while st[k].text == "#" and st[k + 1].text == "[":
                        k = match_close(st, k + 1) + 1
                    if k >= c: break
                    v = vis_at(k)
                    if v is None:
                        edits.append((st[k].start, st[k].start, "pub "))
                    elif text[v[0]:v[1]] != "pub":
                        edits.append((v[0], v[1], "pub"))
                    at_field = False
                    continue
                if x.kind == "punct":
                    if x.text in OPEN: d += 1
                    elif x.text in CLOSE: d -= 1
                    elif x.text == "<": ang += 1
                    elif x.text == ">": ang -= 1
                    elif x.text == ">>": ang -= 2
                    elif x.text == "," and d == 0 and ang == 0:
                        at_field = True
                k += 1
    if edits: rules.append("R12")
    return apply_edits(text, edits) if edits else text

def rule_r13(text, rules):
    """`fn f(mut self, ..) { B }` -> `fn f(self, ..) { let mut __self = self; B[self := __self] }`
    (Verus does not support `mut self` parameters; a by-value receiver rebound to a mutable local is the same value)"""
    toks, st = _sig_with_index(text)
    # find `( mut self` at the start of the parameter list of this fn item
    for i, t in enumerate(st):
        if t.kind == "ident" and t.text == "fn":
            j = i + 1
            while st[j].text != "(": j += 1
            if st[j + 1].text == "mut" and st[j + 2].text == "self" and st[j + 3].text in (",", ")"):
                # body open
                d = 0; k = j
                while True:
                    x = st[k]
                    if x.kind == "punct":
                        if x.text == "{" and d == 0: break
                        if x.text in OPEN: d += 1
                        elif x.text in CLOSE: d -= 1
                    k += 1
                bc = match_close(st, k)
                edits = [(st[j + 1].start, st[j + 2].start, "")]
                edits.append((st[k].end, st[k].end, " let mut __self = self; "))
                for q in range(k + 1, bc):
                    if st[q].kind == "ident" and st[q].text == "self":
                        edits.append((st[q].start, st[q].end, "__self"))
                rules.append("R13")
                return apply_edits(text, edits)
            break
    return text

def rule_r8(text, rules):
    """drop log-macro statements"""
    toks, st = _sig_with_index(text)
    edits = []
    for i, t in enumerate(st):
        if t.kind == "ident" and t.text in LOG_MACROS and i + 2 < len(st) and st[i + 1].text == "!" and st[i + 2].text == "(":
            c = match_close(st, i + 2)
            # `log::warn!(..)` / `::log::warn!(..)`: the path prefix belongs to the macro call
            b = i
            if b >= 2 and st[b - 1].text == "::" and st[b - 2].kind == "ident" and st[b - 2].text == "log":
                b -= 2
                if b >= 1 and st[b - 1].text == "::": b -= 1
            if _stmt_start(st, b) and c + 1 < len(st) and st[c + 1].text == ";":
                edits.append((st[b].start, st[c + 1].end, ""))
            else:
                edits.append((st[b].start, st[c].end, "()"))
            rules.append("R8")
    return apply_edits(text, edits) if edits else text

def rule_r9(text, rules):
    """assert!/assert_eq!/assert_ne! -> if !(..) { panic!() }"""
    toks, st = _sig_with_index(text)
    edits = []
    for i, t in enumerate(st):
        if t.kind == "ident" and t.text in ("assert", "assert_eq", "assert_ne") and i + 2 < len(st) \
                and st[i + 1].text == "!" and st[i + 2].text == "(" and _stmt_start(st, i):
            c = match_close(st, i + 2)
            parts = _split_top_commas(st, i + 3, c)
            def txt(p): return text[st[p[0]].start:st[p[1] - 1].end]
            if t.text == "assert":
                cond = "(%s)" % txt(parts[0])
            elif t.text == "assert_eq":
                cond = "((%s) == (%s))" % (txt(parts[0]), txt(parts[1]))
            else:
                cond = "((%s) != (%s))" % (txt(parts[0]), txt(parts[1]))
            end = st[c + 1].end if c + 1 < len(st) and st[c + 1].text == ";" else st[c].end
            edits.append((t.start, end, "if !%s { panic!() }" % cond))
            rules.append("R9")
    return apply_edits(text, edits) if edits else text

def rule_r5(text, rules):
    """`lhs |= rhs;` on bool"""
    toks, st = _sig_with_index(text)
    edits = []
    for i, t in enumerate(st):
        if t.kind == "punct" and t.text == "|=":
            # statement start
            a = i
            while not _stmt_start(st, a): a -= 1
            b = i
            d = 0
            while True:
                b += 1
                x = st[b]
                if x.kind == "punct":
                    if x.text in OPEN: d += 1
                    elif x.text in CLOSE: d -= 1
                    elif x.text == ";" and d == 0: break
            lhs = text[st[a].start:st[i - 1].end]
            rhs = text[st[i + 1].start:st[b - 1].end]
            edits.append((st[a].start, st[b].end, "{ let __rhs: bool = %s; %s = %s || __rhs; }" % (rhs, lhs, lhs)))
            rules.append("R5")
    return apply_edits(text, edits) if edits else text

def _enclosing_open(st, k):
    """index of the `{` that encloses position k (exclusive), or None"""
    d = 0; e = k
    while e >= 0:
        x = st[e]
        if x.kind == "punct":
            if x.text == "}": d += 1
            elif x.text == "{":
                if d == 0: return e
                d -= 1
        e -= 1
    return None

def _block_header_kw(st, body_open):
    """keyword that introduces the block opened at body_open: for / while / loop / if / else / None"""
    if st[body_open - 1].kind == "ident" and st[body_open - 1].text in ("else", "loop"): return st[body_open - 1].text
    q = body_open - 1; d2 = 0
    while q >= 0:
        x = st[q]
        if x.kind == "punct" and x.text in ("}", ";", "{") and d2 == 0: return None
        if x.kind == "punct" and x.text in (")", "]"): d2 += 1
        if x.kind == "punct" and x.text in ("(", "["): d2 -= 1
        if x.kind == "ident" and x.text in ("for", "while", "loop", "if", "match") and d2 == 0: return x.text
        q -= 1
    return None

def _in_loop_tail(st, body_open, depth=0):
    if depth > 20: return False
    kw = _block_header_kw(st, body_open)
    if kw in ("for", "while", "loop"): return True
    if kw not in ("if", "else"): return False
    # end of the whole if / else-if / else chain this block belongs to
    c = match_close(st, body_open)
    while c + 1 < len(st) and st[c + 1].kind == "ident" and st[c + 1].text == "else":
        j = c + 2
        while st[j].text != "{": j += 1
        c = match_close(st, j)
    nxt = c + 1
    if nxt < len(st) and st[nxt].text == ";": nxt += 1
    if not (nxt < len(st) and st[nxt].text == "}"): return False     # something follows the chain in its parent block
    # start of the chain: walk back over `else if .. {..}` links to the first `if`
    parent = _enclosing_open(st, body_open - 1)
    # body_open - 1 may lie inside an earlier arm's braces only if we are an else-arm: _enclosing_open skips balanced blocks
    if parent is None: return False
    return _in_loop_tail(st, parent, depth + 1)

def rule_r14(text, rules):
    """`loop-body { ...; if C { S; continue; } REST }`  ->  `{ ...; if C { S } else { REST } }`
    (Verus for-loops do not support `continue`; an early `continue` that ends a top-level `if` without `else` is the same as
    putting the rest of the body into the else branch).  Other uses of `continue` are left alone (and refused later)."""
    guard = 0
    while True:
        guard += 1
        if guard > 50: return text
        toks, st = _sig_with_index(text)
        done = True
        for ci, t in enumerate(st):
            if not (t.kind == "ident" and t.text == "continue"): continue
            if not (ci + 2 < len(st) and st[ci + 1].text == ";" and st[ci + 2].text == "}"): continue
            if_close = ci + 2
            # find the matching open brace of this block
            d = 0; j = if_close
            while j >= 0:
                x = st[j]
                if x.kind == "punct":
                    if x.text == "}": d += 1
                    elif x.text == "{":
                        d -= 1
                        if d == 0: break
                j -= 1
            if_open = j
            # the block must belong to an `if` (scan back to the statement start)
            k = if_open - 1
            while k >= 0 and not (st[k].kind == "punct" and st[k].text in ("{", "}", ";")): k -= 1
            if not (st[k + 1].kind == "ident" and st[k + 1].text == "if"): continue
            if k >= 1 and st[k].text == "}" and False: continue
            # not `else if`
            if k >= 0 and st[k].kind == "ident" and st[k].text == "else": continue
            # no else after
            if if_close + 1 < len(st) and st[if_close + 1].kind == "ident" and st[if_close + 1].text == "else": continue
            # enclosing block: find the `{` that encloses st[k+1]
            body_open = _enclosing_open(st, k)
            if body_open is None: continue
            body_close = match_close(st, body_open)
            # it must be a loop body, or a block in TAIL POSITION of a loop body (the arm of an if / else-if / else chain that
            # is the last statement of its own enclosing block, and so on up to the loop body): skipping the rest of such a
            # block is the same as skipping the rest of the iteration
            if not _in_loop_tail(st, body_open): continue
            rest_start = st[if_close].end
            rest_end = st[body_close].start
            rest = text[rest_start:rest_end]
            new = text[:st[ci].start] + text[st[ci + 1].end:st[if_close].end] + " else {" + rest + "}" + text[rest_end:]
            text = new
            rules.append("R14")
            done = False
            break
        if done: return text

def rule_r14b(text, rules):
    """if A {X} [else if B {Y}]* [else {Z}] REST   where some arms end in `continue;` and the enclosing block is in tail position of a
    loop body  ->  the `continue;` is dropped from those arms, REST is appended to every other arm (an `else { REST }` is added when the
    chain has no final else) and removed after the chain.  (Skipping REST is all that `continue` did there.)"""
    guard = 0
    while True:
        guard += 1
        if guard > 30: return text
        toks, st = _sig_with_index(text)
        hit = None
        for ci, t in enumerate(st):
            if not (t.kind == "ident" and t.text == "continue"): continue
            if not (ci + 2 < len(st) and st[ci + 1].text == ";" and st[ci + 2].text == "}"): continue
            arm_close = ci + 2
            arm_open = _enclosing_open(st, ci)
            if arm_open is None or _block_header_kw(st, arm_open) not in ("if", "else"): continue
            # find the first `if` of the chain: walk back over `} else if .. {` / `} else {`
            first_open = arm_open
            while True:
                # token before the header of this arm
                h = first_open - 1
                if st[h].kind == "ident" and st[h].text == "else":
                    prev_close = h - 1
                elif _block_header_kw(st, first_open) == "if":
                    # find the `if` keyword
                    q = first_open - 1; d2 = 0
                    while not (st[q].kind == "ident" and st[q].text == "if" and d2 == 0):
                        if st[q].text in (")", "]"): d2 += 1
                        elif st[q].text in ("(", "["): d2 -= 1
                        q -= 1
                    if q >= 1 and st[q - 1].kind == "ident" and st[q - 1].text == "else":
                        prev_close = q - 2
                    else:
                        if_kw = q; break
                else:
                    if_kw = None; break
                if st[prev_close].text != "}": if_kw = None; break
                # opening brace of the previous arm
                d = 0; j = prev_close
                while j >= 0:
                    if st[j].text == "}": d += 1
                    elif st[j].text == "{":
                        d -= 1
                        if d == 0: break
                    j -= 1
                first_open = j
            if if_kw is None or not _stmt_start(st, if_kw): continue
            # collect the arms of the chain
            arms = []; j = if_kw; has_else = False
            while True:
                k = j + 1; d = 0
                if st[j].text == "else" and st[j + 1].text == "{":
                    k = j + 1
                else:
                    while not (st[k].text == "{" and d == 0):
                        if st[k].text in ("(", "["): d += 1
                        elif st[k].text in (")", "]"): d -= 1
                        k += 1
                c = match_close(st, k)
                arms.append((k, c))
                if c + 1 < len(st) and st[c + 1].kind == "ident" and st[c + 1].text == "else":
                    if st[c + 2].text == "{": has_else = True; j = c + 1
                    else: j = c + 2        # `else if`
                    continue
                break
            chain_end = arms[-1][1]
            encl = _enclosing_open(st, if_kw - 1) if if_kw > 0 else None
            if encl is None or not _in_loop_tail(st, encl): continue
            encl_close = match_close(st, encl)
            if chain_end + 1 >= encl_close: continue          # nothing follows: plain R14 territory
            rest = text[st[chain_end].end:st[encl_close].start]
            if "continue" in [x.text for x in sig(lex(rest)) if x.kind == "ident"] or "break" in [x.text for x in sig(lex(rest)) if x.kind == "ident"]: continue
            hit = (arms, has_else, chain_end, encl_close, rest); break
        if hit is None: return text
        arms, has_else, chain_end, encl_close, rest = hit
        edits = []
        for (o, c) in arms:
            ends_with_continue = (st[c - 1].text == ";" and st[c - 2].kind == "ident" and st[c - 2].text == "continue")
            if ends_with_continue:
                edits.append((st[c - 2].start, st[c - 1].end, ""))
            else:
                edits.append((st[c].start, st[c].start, rest + "\n"))
        tail = "" if has_else else " else {" + rest + "}"
        edits.append((st[chain_end].end, st[encl_close].start, tail + "\n"))
        text = apply_edits(text, edits)
        rules.append("R14")

def rule_r4(text, rules):
    """for (i, x) in E.enumerate() { B }  ->  { let mut __nK: usize = 0; for x in E { let i = __nK; __nK += 1; B } }"""
    k = 0
    while True:
        toks, st = _sig_with_index(text)
        hit = None
        for i, t in enumerate(st):
            if t.kind == "ident" and t.text == "for" and i + 1 < len(st) and st[i + 1].text == "(":
                pc = match_close(st, i + 1)
                if st[pc + 1].text != "in": continue
                # find body open
                j = pc + 2; d = 0
                while True:
                    x = st[j]
                    if x.kind == "punct":
                        if x.text == "{" and d == 0: break
                        if x.text in OPEN: d += 1
                        elif x.text in CLOSE: d -= 1
                    j += 1
                bo = j
                # E must end with .enumerate()
                if not (st[bo - 1].text == ")" and st[bo - 2].text == "(" and st[bo - 3].text == "enumerate" and st[bo - 4].text == "."):
                    continue
                hit = (i, pc, bo); break
        if hit is None: return text
        i, pc, bo = hit
        parts = _split_top_commas(st, i + 2, pc)
        if len(parts) != 2: raise ExtractError("R4: unexpected enumerate pattern")
        ipat = text[st[parts[0][0]].start:st[parts[0][1] - 1].end]
        xpat = text[st[parts[1][0]].start:st[parts[1][1] - 1].end]
        E = text[st[pc + 2].start:st[bo - 5].end]
        bc = match_close(st, bo)
        body = text[st[bo].end:st[bc].start]
        bt = sig(lex(body))
        if any(x.kind == "ident" and x.text in ("continue", "break") for x in bt):
            raise ExtractError("R4: loop body contains continue/break (unsupported in Verus for-loops)")
        k += 1
        n = "__n%d" % k
        new = "{ let mut %s: usize = 0; for %s in %s {%s let %s = %s; %s += 1;%s} }" % (
            n, xpat, E, "/*@LOOPHDR*/", ipat, n, n, body)
        text = text[:st[i].start] + new + text[st[bc].end:]
        rules.append("R4")

def rule_r17(text, rules):
    """for PAT in E.iter_mut() { B }  with PAT a struct or tuple pattern  ->  for __xK in E.iter_mut() { let PAT = __xK; B }
    (Verus: the loop variable of a for-loop is also used in spec mode, where `&mut` bindings in patterns are refused)"""
    k = 0
    while True:
        toks, st = _sig_with_index(text)
        hit = None
        for i, t in enumerate(st):
            if not (t.kind == "ident" and t.text == "for"): continue
            if st[i + 1].text == "<": continue
            # pattern runs to `in` at depth 0
            j = i + 1; has_brace = False
            while True:
                y = st[j]
                if y.kind == "punct" and y.text in OPEN:
                    if y.text in ("{", "("): has_brace = True
                    j = match_close(st, j) + 1; continue
                if y.kind == "ident" and y.text == "in": break
                j += 1
                if j >= len(st): break
            if j >= len(st) or not has_brace: continue
            # body open
            b = j + 1; d = 0
            while True:
                x = st[b]
                if x.kind == "punct":
                    if x.text == "{" and d == 0: break
                    if x.text in OPEN: d += 1
                    elif x.text in CLOSE: d -= 1
                b += 1
            if "iter_mut()" not in text[st[j].end:st[b].start]: continue    # only `&mut` bindings are refused
            hit = (i, j, b); break
        if hit is None: return text
        i, j, b = hit
        k += 1
        pat = text[st[i + 1].start:st[j - 1].end]
        var = "__x%d" % k
        text = text[:st[i + 1].start] + var + " " + text[st[j].start:st[b].end] + (" let %s = %s;" % (pat, var)) + text[st[b].end:]
        rules.append("R17")

def rule_r22(text, rules):
    """RECV.iter().map(|X| E).collect()  ->  { let mut __cK = Vec::new(); for X in RECV.iter() { __cK.push(E); } __cK }
       (X one identifier or a tuple pattern of identifiers; E an expression or a block `{ S; E' }`, evaluated once per item, in order, as the
       closure is; `RECV.into_iter().map(..)` likewise with `for X in RECV`)
       RECV.iter().map(PATH).collect()   ->  { let mut __cK = Vec::new(); for __mK in RECV.iter() { __cK.push(PATH(__mK)); } __cK }
    (also with the turbofish `collect::<Vec<_>>()`; Verus has no specification for the Map adapter / collect.)  RECV is a path of
    identifiers and field accesses, X one identifier, PATH a path of identifiers; refused if E contains `return` or `?` (they would leave
    the closure, not the function).  The result is a Vec: any other collect target is rejected by the type checker of the generated
    text.  The for-loop counts as a loop of the function."""
    k = 0
    while True:
        toks, st = _sig_with_index(text)
        hit = None
        for i in range(len(st) - 10):
            tx = [y.text for y in st[i:i + 7]]
            if tx != [".", "iter", "(", ")", ".", "map", "("] and tx != [".", "into_iter", "(", ")", ".", "map", "("]: continue
            itname = st[i + 1].text
            mo = i + 6; mc = match_close(st, mo)
            # collect() or collect::<Vec<_>>()
            after = "".join(y.text for y in st[mc + 1:mc + 12])
            n_after = None
            for want in (".collect()", ".collect::<Vec<_>>()"):
                acc = ""; n = 0
                while n < 12 and mc + 1 + n < len(st) and len(acc) < len(want):
                    acc += st[mc + 1 + n].text; n += 1
                if acc == want: n_after = n; break
            if n_after is None: continue
            # receiver: identifiers / self joined by `.`, each possibly called without arguments (`fty.params()`)
            r = i - 1
            if st[r].text == ")" and st[r - 1].text == "(" and st[r - 2].kind == "ident": r -= 2
            if not (st[r].kind == "ident"): continue
            while r - 2 >= 0 and st[r - 1].text == ".":
                if st[r - 2].kind == "ident": r -= 2
                elif r - 4 >= 0 and st[r - 2].text == ")" and st[r - 3].text == "(" and st[r - 4].kind == "ident": r -= 4
                else: break
            if r - 1 >= 0 and st[r - 1].text in (".", "::", ")", "]", "?"): continue    # part of a longer postfix expression: leave it
            inner = st[mo + 1:mc]
            pe = None
            if len(inner) >= 3 and inner[0].text == "|":
                # the closure parameter: one identifier, or a tuple pattern of identifiers `(a, b)`
                if inner[1].kind == "ident" and inner[2].text == "|": pe = 2
                elif inner[1].text == "(":
                    q = 2
                    while q < len(inner) and (inner[q].kind == "ident" or inner[q].text == ","): q += 1
                    if q + 1 < len(inner) and inner[q].text == ")" and inner[q + 1].text == "|": pe = q + 1
            if pe is not None:
                body = inner[pe + 1:]
                if any((y.kind == "ident" and y.text == "return") or (y.kind == "punct" and y.text == "?") for y in body):
                    raise ExtractError("unsupported: `return` / `?` inside a map(..).collect() closure")
                var = text[inner[1].start:inner[pe - 1].end]
                E = text[inner[pe + 1].start:inner[-1].end]
            elif inner and all((y.kind == "ident") or (y.kind == "punct" and y.text == "::") for y in inner):
                var = None
                E = text[inner[0].start:inner[-1].end]
            else:
                continue
            hit = (r, i, mc, n_after, var, E, itname); break
        if hit is None: return text
        r, i, mc, n_after, var, E, itname = hit
        k += 1
        recv = text[st[r].start:st[i - 1].end]
        if var is None:
            var = "__m%d" % k
            E = "%s(%s)" % (E, var)
        src = (recv + ".iter()") if itname == "iter" else recv       # `for X in RECV` IS `for X in IntoIterator::into_iter(RECV)`
        new = "{ let mut __c%d = Vec::new(); for %s in %s { __c%d.push(%s); } __c%d }" % (k, var, src, k, E, k)
        text = text[:st[r].start] + new + text[st[mc + n_after].end:]
        rules.append("R22")

def rule_r31(text, rules):
    """RECV.iter().any(|X| E)  ->  { let mut __aK = false; for X in RECV.iter() { if !__aK && E { __aK = true; } } __aK }
    (Iterator::any stops at the first item for which E holds; E - which must not have side effects: it contains no call with `&mut`,
    no assignment - is not evaluated for later items here either, because of the short-circuit `!__aK &&`; the loop merely runs on.)
    RECV a path of identifiers, X one identifier."""
    k = 0
    while True:
        toks, st = _sig_with_index(text)
        hit = None
        for i in range(len(st) - 10):
            if [y.text for y in st[i:i + 8]][:7] != [".", "iter", "(", ")", ".", "any", "("]: continue
            mo = i + 6; mc = match_close(st, mo)
            inner = st[mo + 1:mc]
            if not (len(inner) >= 4 and inner[0].text == "|" and inner[1].kind == "ident" and inner[2].text == "|"): continue
            r = i - 1
            if not (st[r].kind == "ident"): continue
            while r - 2 >= 0 and st[r - 1].text == "." and st[r - 2].kind == "ident": r -= 2
            if r - 1 >= 0 and st[r - 1].text in (".", "::", ")", "]", "?"): continue
            body = inner[3:]
            if any((y.kind == "ident" and y.text in ("return", "mut")) or (y.kind == "punct" and y.text in ("?", "=", "+=", "-=")) for y in body):
                raise ExtractError("unsupported: side effect / `return` / `?` inside an any(..) closure")
            hit = (r, i, mc, inner[1].text, text[inner[3].start:inner[-1].end]); break
        if hit is None: return text
        r, i, mc, var, E = hit
        k += 1
        recv = text[st[r].start:st[i - 1].end]
        new = "{ let mut __a%d = false; for %s in %s.iter() { if !__a%d && (%s) { __a%d = true; } } __a%d }" % (k, var, recv, k, E, k, k)
        text = text[:st[r].start] + new + text[st[mc].end:]
        rules.append("R31")

def rule_r24(text, rules):
    """RECV.into_iter().map(|X| E).collect::<Result<_, _>>()?  ->  { let mut __rK = Vec::new(); for X in RECV { __rK.push((E)?); } __rK }
    and  RECV.into_iter().collect::<Result<_, _>>()?           ->  { let mut __rK = Vec::new(); for __x in RECV { __rK.push(__x?); } __rK }
    (`for X in RECV` IS `for X in IntoIterator::into_iter(RECV)`)
    (collecting an iterator of Results into Result<Vec<_>, _> stops at the first error and returns it; the `?` behind it then leaves the
    function with that error - exactly what pushing `(E)?` item by item does.  RECV a path of identifiers, X one identifier; a `?`
    inside E left the closure with an Err that the collect handed on to the outer `?`: it now leaves the function directly, with the
    same error up to one more identity From conversion.)  The result is a Vec: any other target is rejected by the type checker."""
    k = 0
    pat_tail = [".", "collect", "::", "<", "Result", "<", "_", ",", "_", ">", ">", "(", ")", "?"]
    while True:
        toks, st = _sig_with_index(text)
        hit = None
        for i in range(len(st) - 8):
            if [y.text for y in st[i:i + 4]] != [".", "into_iter", "(", ")"]: continue
            r = i - 1
            if not (st[r].kind == "ident"): continue
            while r - 2 >= 0 and st[r - 1].text == "." and st[r - 2].kind == "ident": r -= 2
            if r - 1 >= 0 and st[r - 1].text in (".", "::", ")", "]", "?"): continue
            j = i + 4
            var = None; E = None
            if [y.text for y in st[j:j + 3]] == [".", "map", "("] and st[j + 3].text == "|" and st[j + 4].kind == "ident" and st[j + 5].text == "|":
                mo = j + 2; mc = match_close(st, mo)
                var = st[j + 4].text
                E = text[st[j + 6].start:st[mc - 1].end]
                if any(y.kind == "ident" and y.text == "return" for y in st[j + 6:mc]):
                    raise ExtractError("unsupported: `return` inside a map(..).collect::<Result<..>>() closure")
                j = mc + 1
            tail = [y.text for y in st[j:j + len(pat_tail)]]
            # the lexer may split `>>` or keep it as one token
            flat = "".join(tail)
            want = "".join(pat_tail)
            n_tail = None
            for n in range(8, len(pat_tail) + 1):
                if "".join(y.text for y in st[j:j + n]) == want: n_tail = n; break
            if n_tail is None: continue
            hit = (r, i, j, n_tail, var, E); break
        if hit is None: return text
        r, i, j, n_tail, var, E = hit
        k += 1
        recv = text[st[r].start:st[i - 1].end]
        if var is None:
            new = "{ let mut __r%d = Vec::new(); for __x%d in %s { __r%d.push(__x%d?); } __r%d }" % (k, k, recv, k, k, k)
        else:
            new = "{ let mut __r%d = Vec::new(); for %s in %s { __r%d.push((%s)?); } __r%d }" % (k, var, recv, k, E, k)
        text = text[:st[r].start] + new + text[st[j + n_tail - 1].end:]
        rules.append("R24")

def rule_r25(text, rules):
    """RECV.extend(SRC.iter().map(|X| E));  ->  for X in SRC.iter() { RECV.push(E); }
    (Vec::extend pushes the items of the iterator in order; RECV and SRC paths of identifiers, X one identifier, a whole statement;
    refused if E contains `return` / `?`)"""
    while True:
        toks, st = _sig_with_index(text)
        hit = None
        for i in range(len(st) - 14):
            if [y.text for y in st[i:i + 3]] != [".", "extend", "("]: continue
            r = i - 1
            if not (st[r].kind == "ident"): continue
            while r - 2 >= 0 and st[r - 1].text == "." and st[r - 2].kind == "ident": r -= 2
            if not _stmt_start(st, r): continue
            eo = i + 2; ec = match_close(st, eo)
            if st[ec + 1].text != ";": continue
            # inside: SRC . iter ( ) . map ( | X | E )
            j = eo + 1
            if not (st[j].kind == "ident"): continue
            while st[j + 1].text == "." and st[j + 2].kind == "ident" and st[j + 2].text != "iter": j += 2
            if [y.text for y in st[j + 1:j + 8]] != [".", "iter", "(", ")", ".", "map", "("]: continue
            mo = j + 7; mc = match_close(st, mo)
            if mc + 1 != ec: continue
            if not (st[mo + 1].text == "|" and st[mo + 2].kind == "ident" and st[mo + 3].text == "|"): continue
            body = st[mo + 4:mc]
            if any((y.kind == "ident" and y.text == "return") or (y.kind == "punct" and y.text == "?") for y in body):
                raise ExtractError("unsupported: `return` / `?` inside an extend(..map(..)) closure")
            hit = (r, i, eo, j, mo, mc, ec); break
        if hit is None: return text
        r, i, eo, j, mo, mc, ec = hit
        recv = text[st[r].start:st[i - 1].end]
        src = text[st[eo + 1].start:st[j].end]
        var = st[mo + 2].text
        E = text[st[mo + 4].start:st[mc - 1].end]
        new = "for %s in %s.iter() { %s.push(%s); }" % (var, src, recv, E)
        text = text[:st[r].start] + new + text[st[ec + 1].end:]
        rules.append("R25")

def rule_r26(text, rules, specs):
    """PREFIX::V(ARGS).encode(&mut B)      ->  FN_V(ARGS, &mut B)
       PREFIX::V.encode(&mut B)            ->  FN_V(&mut B)
       PREFIX::V { f: e, g: h }.encode(&mut B)  ->  FN_V__f__g(e, h, &mut B)
    for each (PREFIX, FN) in specs (directive `encode-calls "PREFIX" => "FN"`).  A builder value that is constructed and encoded in one
    expression is written as a call of a named emitter (declared in the unit, one per variant / field order), so that the emitter's contract
    stands for `<variant>.encode`.  Purely syntactic: which emitter is called with which argument expressions is read off the text."""
    for (prefix, fn) in specs:
        ptoks = [t.text for t in sig(lex(prefix))]
        while True:
            toks, st = _sig_with_index(text)
            hit = None
            for i in range(len(st) - len(ptoks) - 3):
                if [y.text for y in st[i:i + len(ptoks)]] != ptoks: continue
                j = i + len(ptoks)
                if st[j].text != "::" or st[j + 1].kind != "ident": continue
                vname = st[j + 1].text
                k = j + 2
                args = None; fields = None
                if st[k].text == "(":
                    kc = match_close(st, k); args = text[st[k + 1].start:st[kc - 1].end] if kc > k + 1 else ""; k = kc + 1
                elif st[k].text == "{":
                    kc = match_close(st, k)
                    parts = _split_top_commas(st, k + 1, kc)
                    fields = []
                    ok = True
                    for (lo, hi) in parts:
                        if hi - lo >= 3 and st[lo].kind == "ident" and st[lo + 1].text == ":":
                            fields.append((st[lo].text, text[st[lo + 2].start:st[hi - 1].end]))
                        elif hi - lo == 1 and st[lo].kind == "ident":
                            fields.append((st[lo].text, st[lo].text))
                        else: ok = False
                    if not ok: continue
                    k = kc + 1
                if [y.text for y in st[k:k + 3]] != [".", "encode", "("]: continue
                ec = match_close(st, k + 2)
                barg = text[st[k + 3].start:st[ec - 1].end]
                hit = (i, ec, vname, args, fields, barg); break
            if hit is None: break
            i, ec, vname, args, fields, barg = hit
            if fields is not None:
                call = "%s_%s__%s(%s, %s)" % (fn, vname, "__".join(f for f, _ in fields), ", ".join(e for _, e in fields), barg)
            elif args is None:
                call = "%s_%s(%s)" % (fn, vname, barg)
            else:
                call = "%s_%s(%s, %s)" % (fn, vname, args, barg)
            text = text[:st[i].start] + call + text[st[ec].end:]
            rules.append("R26")
    return text

def rule_r27(text, rules):
    """M.entry(K).and_modify(|X| BODY).or_insert(V);   (a whole statement; M a path of identifiers, X one identifier, optionally typed)
         ->  if M.contains_key(&K) { let mut __eN = M.remove(&K).unwrap(); { let X = &mut __eN; BODY; } M.insert(K, __eN); } else { M.insert(K, V); };
    The entry API updates the value under K in place if there is one and inserts V otherwise.  The rewrite takes the value out, updates
    it and puts it back: the MAP (what is stored under which key) is the same afterwards; what differs is not observable through a
    HashMap (no iteration order is promised) - and V is built only when it is needed (V is an allocation without other effects at the
    sites this is used for; K is a Copy value and is read twice).  Verus has no specification of the entry API or of get_mut."""
    k = 0
    while True:
        toks, st = _sig_with_index(text)
        hit = None
        for i in range(len(st) - 12):
            if [y.text for y in st[i:i + 3]] != [".", "entry", "("]: continue
            r = i - 1
            if not (st[r].kind == "ident"): continue
            while r - 2 >= 0 and st[r - 1].text == "." and st[r - 2].kind == "ident": r -= 2
            if not _stmt_start(st, r): continue
            ko = i + 2; kc = match_close(st, ko)
            if [y.text for y in st[kc + 1:kc + 4]] != [".", "and_modify", "("]: continue
            ao = kc + 3; ac = match_close(st, ao)
            if st[ao + 1].text != "|" or st[ao + 2].kind != "ident": continue
            # closure parameter, optionally `: TYPE`
            p = ao + 3; d = 0
            while not (st[p].text == "|" and d == 0):
                if st[p].text in ("<", "(", "["): d += 1
                elif st[p].text in (">", ")", "]"): d -= 1
                p += 1
            xname = st[ao + 2].text
            xtype = text[st[ao + 4].start:st[p - 1].end] if st[ao + 3].text == ":" else None
            if [y.text for y in st[ac + 1:ac + 4]] != [".", "or_insert", "("]: continue
            oo = ac + 3; oc = match_close(st, oo)
            if st[oc + 1].text != ";": continue
            hit = (r, i, ko, kc, ao, ac, p, oo, oc, xname, xtype); break
        if hit is None: return text
        r, i, ko, kc, ao, ac, p, oo, oc, xname, xtype = hit
        k += 1
        M = text[st[r].start:st[i - 1].end]
        K = text[st[ko + 1].start:st[kc - 1].end]
        V = text[st[oo + 1].start:st[oc - 1].end]
        body = text[st[p + 1].start:st[ac - 1].end]
        if st[p + 1].text == "{" and match_close(st, p + 1) == ac - 1:
            body = body[1:-1]
        else:
            body = body + ";"
        ev = "__e%d" % k
        let = "let %s%s = &mut %s;" % (xname, (": " + xtype) if xtype else "", ev)
        new = "if %s.contains_key(&%s) { let mut %s = %s.remove(&%s).unwrap(); { %s %s } %s.insert(%s, %s); } else { %s.insert(%s, %s); };" % (M, K, ev, M, K, let, body, M, K, ev, M, K, V)
        text = text[:st[r].start] + new + text[st[oc + 1].end:]
        rules.append("R27")

def rule_r28(text, rules):
    """E.for_each(|X| { BODY });   (a whole statement; X a pattern without `|`)   ->   for X in E { BODY }
    - the definition of Iterator::for_each ("calls a closure on each element of an iterator ... equivalent to using a for loop"); a
    `return` inside the closure body would mean `continue`, so a BODY that contains `return` is refused."""
    while True:
        toks, st = _sig_with_index(text)
        hit = None
        for i in range(len(st) - 6):
            if [y.text for y in st[i:i + 4]] != [".", "for_each", "(", "|"]: continue
            # receiver expression: back to the start of the statement
            r = i - 1
            while r > 0 and not _stmt_start(st, r):
                if st[r].kind == "punct" and st[r].text in CLOSE:
                    d = 0
                    while True:
                        if st[r].text in CLOSE and st[r].kind == "punct": d += 1
                        elif st[r].text in OPEN and st[r].kind == "punct": d -= 1
                        if d == 0: break
                        r -= 1
                    if _stmt_start(st, r): break
                r -= 1
            if st[r].kind != "ident": continue
            ao = i + 2; ac = match_close(st, ao)
            p = ao + 2
            while st[p].text != "|": p += 1
            if st[p + 1].text != "{" or match_close(st, p + 1) != ac - 1: continue
            if st[ac + 1].text != ";": continue
            hit = (r, i, ao, ac, p); break
        if hit is None: return text
        r, i, ao, ac, p = hit
        E = text[st[r].start:st[i - 1].end]
        X = text[st[ao + 2].start:st[p - 1].end]
        body = text[st[p + 1].start:st[ac - 1].end]
        # a `return;` of the closure ends this call of it, i.e. this iteration: `continue;` - unless it sits in a loop or closure nested in BODY
        tb, stb = _sig_with_index(body)
        eds = []
        for q, y in enumerate(stb):
            if y.kind == "ident" and y.text == "return":
                if stb[q + 1].text != ";": raise ExtractError("R28: `return <value>` inside a for_each closure")
                spans = [(stb[lb].start, stb[match_close(stb, lb)].end) for (kw, lb) in _loop_headers(body, stb, 0)]
                if any(a <= y.start < b for a, b in spans) or any(z.text == "|" for z in stb[1:q]):
                    raise ExtractError("R28: `return` inside a loop or closure nested in a for_each closure")
                eds.append((y.start, y.end, "continue"))
        body = apply_edits(body, eds)
        text = text[:st[r].start] + "for %s in %s %s" % (X, E, body) + text[st[ac + 1].end:]
        rules.append("R28")

def rule_r29(text, rules):
    """RECV.and_then(|X| E)   (X one identifier, RECV a chain `ident(.ident | .ident(args))*`)   ->   (match RECV { Some(X) => E, None => None })
    - the definition of Option::and_then; only applied where the closure CAPTURES by mutable reference is the problem (a closure
    literal as the argument).  On a Result receiver the rewrite would not type-check, so a wrong guess cannot go unnoticed."""
    while True:
        toks, st = _sig_with_index(text)
        hit = None
        for i in range(1, len(st) - 6):
            if [y.text for y in st[i:i + 4]] != [".", "and_then", "("]+["|"]: continue
            if st[i + 4].kind != "ident" or st[i + 5].text != "|": continue
            r = i - 1
            while True:
                if st[r].kind == "punct" and st[r].text == ")":
                    d = 0
                    while True:
                        if st[r].kind == "punct" and st[r].text in CLOSE: d += 1
                        elif st[r].kind == "punct" and st[r].text in OPEN: d -= 1
                        if d == 0: break
                        r -= 1
                    r -= 1      # the method / fn name before `(`
                if st[r].kind != "ident": r = None; break
                if r - 1 >= 0 and st[r - 1].text == ".": r -= 2; continue
                break
            if r is None: continue
            ao = i + 2; ac = match_close(st, ao)
            hit = (r, i, ao, ac); break
        if hit is None: return text
        r, i, ao, ac = hit
        RECV = text[st[r].start:st[i - 1].end]
        X = st[ao + 2].text
        E = text[st[ao + 4].start:st[ac - 1].end]
        text = text[:st[r].start] + "(match %s { Some(%s) => %s, None => None })" % (RECV, X, E) + text[st[ac].end:]
        rules.append("R29")

def _closure_binding(text, name):
    """`let [mut] NAME = |PARAMS| { BODY };` -> (stmt_lo, stmt_hi, [param names], body_lo, body_hi)  (offsets into text; body = inside the braces)"""
    toks, st = _sig_with_index(text)
    hits = []
    for i in range(len(st) - 6):
        if st[i].text != "let" or st[i].kind != "ident" or not _stmt_start(st, i): continue
        j = i + 1
        if st[j].text == "mut": j += 1
        if st[j].text != name or st[j + 1].text != "=" or st[j + 2].text != "|": continue
        p = j + 3; d = 0; names = []; expect_name = True
        while not (st[p].text == "|" and d == 0):
            y = st[p]
            if y.kind == "punct" and y.text in ("<", "(", "["): d += 1
            elif y.kind == "punct" and y.text in (">", ")", "]"): d -= 1
            elif y.kind == "punct" and y.text == "," and d == 0: expect_name = True
            elif expect_name and y.kind == "ident" and y.text != "mut": names.append(y.text); expect_name = False
            p += 1
        if st[p + 1].text != "{": raise ExtractError("R30: closure %s has no block body" % name)
        bc = match_close(st, p + 1)
        if st[bc + 1].text != ";": raise ExtractError("R30: closure %s: binding statement does not end after the block" % name)
        hits.append((st[i].start, st[bc + 1].end, names, st[p + 1].end, st[bc].start))
    if len(hits) != 1: raise ExtractError("anchor lost: closure binding `let %s = |..| {..};` occurs %d times" % (name, len(hits)))
    return hits[0]

def rule_r30(text, rules, specs):
    """let [mut] NAME = |P..| { BODY };  ...  NAME(ARGS)   ->   (binding removed)  ...  FN(ARGS, EXTRA..)
    for each declared `closure-calls "NAME" => "FN" with "EXTRA, .."`: a closure bound to a local name is a function of its parameters and
    of the variables it captures; its body is verified as a function of its own (directive region-closure, same text) whose header lists
    the captured variables after the closure's parameters, and every call passes them explicitly.  A captured variable missing from EXTRA
    makes the synthetic function fail to compile (undecided, never a wrong proof)."""
    for (name, fn, extra) in specs:
        lo, hi, names, blo, bhi = _closure_binding(text, name)
        body = text[blo:bhi]
        tb, stb = _sig_with_index(body)
        for e in [x.strip() for x in extra.split(",") if x.strip()]:
            e0 = re.sub(r"^[&*\s]*(mut\s+)?", "", e)
            if not any(y.kind == "ident" and y.text == e0 for y in stb):
                raise ExtractError("R30: `%s` is passed to %s but does not occur in the closure body" % (e0, fn))
        text = text[:lo] + text[hi:]
        while True:
            toks, st = _sig_with_index(text)
            hit = None
            for i in range(len(st) - 1):
                if st[i].kind == "ident" and st[i].text == name and st[i + 1].text == "(" and (i == 0 or st[i - 1].text not in (".", "::", "fn", "let", "mut")):
                    hit = i; break
            if hit is None: break
            c = match_close(st, hit + 1)
            args = text[st[hit + 1].end:st[c].start].strip()
            allargs = ", ".join([a for a in (args.rstrip(","), extra) if a.strip()])
            text = text[:st[hit].start] + "%s(%s)" % (fn, allargs) + text[st[c].end:]
        rules.append("R30")
    return text

def rule_r18(text, rules, specs):
    """for PAT in E { B }  ->  { let mut IT = INTO(E); loop { match NEXT(&mut IT) { None => { break; } Some(PAT) => { B } } } }
    - the definition of `for` in the Rust reference - for iterators that have no Verus specification (wasmparser's section
    readers). INTO / NEXT are wrappers declared in the unit around IntoIterator::into_iter / Iterator::next.
    specs: list of (N, into_fn, next_fn, iter_name); N counts for/while/loop keywords of the fn body in textual order."""
    for (n, into_fn, next_fn, itname) in sorted(specs, key=lambda x: -x[0]):
        st, bo, arrow, wh = _fn_parts(text)
        loops = _loop_headers(text, st, bo)
        if n < 1 or n > len(loops): raise ExtractError("anchor lost: for-next loop %d (has %d)" % (n, len(loops)))
        kwi, lbo = loops[n - 1]
        if st[kwi].text != "for": raise ExtractError("for-next: loop %d is not a `for`" % n)
        j = kwi + 1
        while True:
            y = st[j]
            if y.kind == "punct" and y.text in OPEN: j = match_close(st, j) + 1; continue
            if y.kind == "ident" and y.text == "in": break
            j += 1
        pat = text[st[kwi + 1].start:st[j - 1].end]
        E = text[st[j + 1].start:st[lbo - 1].end]
        lbc = match_close(st, lbo)
        body = text[st[lbo].start:st[lbc].end]
        new = "{ let mut %s = %s(%s); loop { match %s(&mut %s) { None => { break; } Some(%s) => %s } } }" % (itname, into_fn, E, next_fn, itname, pat, body)
        text = text[:st[kwi].start] + new + text[st[lbc].end:]
        rules.append("R18")
    return text

def rule_r3(text, rules, only_guarded=False):
    """split or-pattern arms of every `match` whose arms have top-level `|` alternatives
    (only_guarded: only arms that also carry an `if` guard - Verus rejects or-pattern + guard outright)"""
    changed = True
    guard = 0
    while changed:
        changed = False
        guard += 1
        if guard > 5000: raise ExtractError("R3 did not converge")
        toks, st = _sig_with_index(text)
        for i, t in enumerate(st):
            if not (t.kind == "ident" and t.text == "match"): continue
            # find match body
            j = i + 1; d = 0
            while True:
                x = st[j]
                if x.kind == "punct":
                    if x.text == "{" and d == 0: break
                    if x.text in OPEN: d += 1
                    elif x.text in CLOSE: d -= 1
                j += 1
            mo = j; mc = match_close(st, mo)
            # walk arms
            a = mo + 1
            while a < mc:
                # pattern: until => at depth 0
                p = a; d = 0; alts = []; s0 = a
                while True:
                    x = st[p]
                    if x.kind == "punct":
                        if x.text in OPEN: d += 1
                        elif x.text in CLOSE: d -= 1
                        elif x.text == "=>" and d == 0: break
                        elif x.text == "|" and d == 0:
                            if p > s0: alts.append((s0, p))
                            s0 = p + 1
                    p += 1
                alts.append((s0, p))
                # rhs
                r = p + 1
                if st[r].text == "{":
                    re_ = match_close(st, r)
                    rhs_end = re_
                    nxt = re_ + 1
                    if nxt < mc and st[nxt].text == ",": nxt += 1
                else:
                    q = r; d = 0
                    while q < mc:
                        x = st[q]
                        if x.kind == "punct":
                            if x.text in OPEN: d += 1
                            elif x.text in CLOSE: d -= 1
                            elif x.text == "," and d == 0: break
                        q += 1
                    rhs_end = q - 1
                    nxt = q + 1 if q < mc else q
                if len(alts) > 1:
                    # check no `if` guard complexities: guard stays with last alt text; replicate guard
                    rhs = text[st[r].start:st[rhs_end].end]
                    # detect guard: ` if ` at depth 0 inside last alt
                    lo, hi = alts[-1]
                    guard_txt = ""
                    d = 0
                    for g in range(lo, hi):
                        x = st[g]
                        if x.kind == "punct":
                            if x.text in OPEN: d += 1
                            elif x.text in CLOSE: d -= 1
                        if x.kind == "ident" and x.text == "if" and d == 0:
                            guard_txt = " " + text[x.start:st[hi - 1].end]
                            alts[-1] = (lo, g)
                            break
                    if only_guarded and not guard_txt:
                        a = nxt
                        continue
                    arms = []
                    for (lo, hi) in alts:
                        arms.append("%s%s => %s," % (text[st[lo].start:st[hi - 1].end], guard_txt, rhs))
                    end_pos = st[nxt - 1].end
                    text = text[:st[a].start] + "\n".join(arms) + text[end_pos:]
                    rules.append("R3")
                    changed = True
                    break
                a = nxt
            if changed: break
    return text

# ---------------------------------------------------------------------------------------------
# splicing

def _fn_parts(text):
    """for a fn item text return (st, body_open_index or None, arrow_index or None, where_index or None)"""
    toks, st = _sig_with_index(text)
    d = 0; bo = None; arrow = None; where = None
    for j, x in enumerate(st):
        if x.kind == "punct":
            if x.text == "{" and d == 0: bo = j; break
            if x.text == ";" and d == 0: break
            if x.text in OPEN: d += 1
            elif x.text in CLOSE: d -= 1
            elif x.text == "->" and d == 0 and arrow is None: arrow = j
        if x.kind == "ident" and x.text == "where" and d == 0: where = j
    return st, bo, arrow, where

def _loop_headers(text, st, bo):
    """indices (in st) of for/while/loop keywords in the body, in order, with their body-open index"""
    out = []
    bc = match_close(st, bo)
    j = bo + 1
    while j < bc:
        x = st[j]
        if x.kind == "ident" and x.text in ("for", "while", "loop"):
            # `for<'a>` in types is not a loop
            if x.text == "for" and st[j + 1].text == "<": j += 1; continue
            k = j + 1
            # skip the pattern part (may contain braces): `for PAT in`, `while let PAT =`
            if x.text == "for" or (x.text == "while" and st[k].kind == "ident" and st[k].text == "let"):
                stop = "in" if x.text == "for" else "="
                while True:
                    y = st[k]
                    if y.kind == "punct" and y.text in OPEN:
                        k = match_close(st, k) + 1; continue
                    if (y.kind == "ident" and y.text == stop) or (y.kind == "punct" and y.text == stop): break
                    k += 1
                k += 1
            d = 0
            while True:
                y = st[k]
                if y.kind == "punct":
                    if y.text == "{" and d == 0: break
                    if y.text in OPEN: d += 1
                    elif y.text in CLOSE: d -= 1
                k += 1
            out.append((j, k))
        j += 1
    return out

def _tail_pos(text, st, bo):
    """offset in text of the start of the tail expression of the fn body"""
    bc = match_close(st, bo)
    # walk statements at depth 1
    j = bo + 1
    last_start = j
    d = 0
    k = j
    while k < bc:
        x = st[k]
        if x.kind == "punct":
            if x.text in OPEN:
                c = match_close(st, k)
                # a block statement `if .. { } else { }` / `for {}` / `match {}` ends a statement when
                # followed by something that cannot continue an expression
                k = c
                if x.text == "{":
                    nxt = st[k + 1] if k + 1 < bc else None
                    if nxt is None: break
                    if nxt.kind == "ident" and nxt.text == "else":
                        k += 1; continue
                    if nxt.kind == "punct" and nxt.text in (".", "?", ";", ")", ",", "="):  # "=": a struct PATTERN of `if let P { .. } = e`
                        k += 1; continue
                    # statement ended
                    last_start = k + 1
                k += 1; continue
            if x.text == ";":
                last_start = k + 1
        k += 1
    if last_start >= bc:
        return st[bc].start  # no tail expression: insert before closing brace
    return st[last_start].start

class Piece:
    """one extracted item with provenance"""
    def __init__(self):
        self.path = None; self.selector = None; self.span = None; self.sha256 = None
        self.rules = []; self.substs = []; self.text = None; self.orig = None; self.region = None

def extract_item(path, selector, opts, directives, findings_open):
    sf, it = locate(path, selector)
    pc = Piece()
    pc.path = path; pc.selector = selector
    start = it.start
    orig = sf.src[start:it.end]
    pc.span = [start, it.end]
    pc.orig = orig
    pc.sha256 = hashlib.sha256(orig.encode()).hexdigest()
    text = orig
    rules = pc.rules
    rules.append("R1")
    if "region" in directives:
        # R16: a statement inside the function becomes the body of a synthetic function whose header, prologue and
        # epilogue are declared in the unit; nested fn items inside the region are cut (they are items of their own)
        rg = directives["region"]
        if rg.get("closure"):
            # R30: the body of the closure bound to a local name; its parameters come first in the declared header, the variables it captures after them
            lo_, hi_, names_, blo_, bhi_ = _closure_binding(orig, rg["closure"])
            hdr = rg["as"]; hp = hdr[hdr.index("(") + 1:]
            pos = -1
            for nm in names_:
                m_ = re.search(r"(?<![A-Za-z0-9_])%s\s*:" % re.escape(nm), hp)
                if not m_ or m_.start() < pos: raise ExtractError("R30: the header declared for closure %s does not list its parameter `%s` in order" % (rg["closure"], nm))
                pos = m_.start()
            tb_, stb_ = _sig_with_index(orig[blo_:bhi_])
            rg = dict(rg); rg["start"] = orig[blo_ + stb_[0].start:bhi_].strip(); rg["_closure_span"] = (blo_, bhi_)
        anchor = rg["start"]
        n = orig.count(anchor)
        kth = rg.get("start_k")
        if (kth is None and n != 1) or (kth is not None and n < kth):
            raise ExtractError("anchor lost: region start %r occurs %d times in %s %s" % (anchor[:40], n, path, selector))
        a0 = [m.start() for m in re.finditer(re.escape(anchor), orig)][(kth or 1) - 1]
        toks_, st_ = _sig_with_index(orig)
        i0 = next((i for i, t in enumerate(st_) if t.start == a0), None)
        if i0 is None or not _stmt_start(st_, i0):
            raise ExtractError("region start is not the first token of a statement in %s %s" % (path, selector))
        c = _stmt_extent(st_, i0)
        if rg.get("end"):
            n2 = orig.count(rg["end"])
            if n2 != 1: raise ExtractError("anchor lost: region end %r occurs %d times in %s %s" % (rg["end"][:40], n2, path, selector))
            a1 = orig.index(rg["end"])
            i1 = next((i for i, t in enumerate(st_) if t.start == a1), None)
            if i1 is None or not _stmt_start(st_, i1) or i1 < i0:
                raise ExtractError("region end is not the first token of a later statement in %s %s" % (path, selector))
            c = _stmt_extent(st_, i1)
        r_lo, r_hi = st_[i0].start, st_[c].end
        if rg.get("_closure_span"):
            r_lo, r_hi = rg["_closure_span"]; rules.append("R30")
        body_only = rg.get("body_only")
        if body_only:
            # R19: only the BODY of the loop statement (one iteration); its pattern bindings become parameters of the declared header
            if st_[i0].text not in ("for", "while", "loop") or rg.get("end"):
                raise ExtractError("region-loop-body needs a single loop statement in %s %s" % (path, selector))
            jb = c
            # c is the closing brace of the body: find its opening brace
            d_ = 0; jo = c
            while jo >= i0:
                if st_[jo].kind == "punct":
                    if st_[jo].text == "}": d_ += 1
                    elif st_[jo].text == "{":
                        d_ -= 1
                        if d_ == 0: break
                jo -= 1
            r_lo, r_hi = st_[jo].end, st_[c].start
        if rg.get("iter_only"):
            # R23: only the ITERABLE expression of a `for` statement (which iterations there are): it becomes the tail expression
            if st_[i0].text != "for" or rg.get("end"):
                raise ExtractError("region-loop-iterable needs a single `for` statement in %s %s" % (path, selector))
            d_ = 0; jo = c
            while jo >= i0:
                if st_[jo].kind == "punct":
                    if st_[jo].text == "}": d_ += 1
                    elif st_[jo].text == "{":
                        d_ -= 1
                        if d_ == 0: break
                jo -= 1
            ji = i0 + 1
            while ji < jo:
                y = st_[ji]
                if y.kind == "punct" and y.text in OPEN: ji = match_close(st_, ji) + 1; continue
                if y.kind == "ident" and y.text == "in": break
                ji += 1
            if ji >= jo: raise ExtractError("region-loop-iterable: no `in` in the loop header in %s %s" % (path, selector))
            r_lo, r_hi = st_[ji].end, st_[jo].start
            rules.append("R23")
        region = orig[r_lo:r_hi]
        # cut nested fn items
        cuts = []
        for nf in _nested_fns(sf, it):
            lo, hi = nf.start - start, nf.end - start
            if r_lo <= lo and hi <= r_hi: cuts.append((lo - r_lo, hi - r_lo, ""))
        region = apply_edits(region, cuts)
        if rg.get("body_only"):
            # `continue` of THIS loop (not of loops nested in the body) ends the iteration: `return <epilogue>`
            t3, st3 = _sig_with_index(region)
            nested = []
            for (kw, lb) in _loop_headers("{" + region + "}", sig(lex("{" + region + "}")), 0):
                pass
            stw = sig(lex("{" + region + "}"))
            spans = [(stw[lb].start - 1, stw[match_close(stw, lb)].end - 1) for (kw, lb) in _loop_headers("{" + region + "}", stw, 0)]
            eds = []
            for i3, t in enumerate(st3):
                if t.kind == "ident" and t.text == "continue" and not any(a <= t.start < b for a, b in spans):
                    eds.append((t.start, t.end, "return " + rg.get("epilogue", "")))
            region = apply_edits(region, eds)
            if eds: rules.append("R19")
        if rg.get("continue") and not rg.get("body_only"):
            # (part of R19) a region of statements of a loop body: a `continue` of THAT loop (not of loops nested in the region) leaves the
            # region early - `return <declared expression>`
            t3, st3 = _sig_with_index(region)
            stw = sig(lex("{" + region + "}"))
            spans = [(stw[lb].start - 1, stw[match_close(stw, lb)].end - 1) for (kw, lb) in _loop_headers("{" + region + "}", stw, 0)]
            eds = [(t.start, t.end, "return " + rg["continue"]) for t in st3 if t.kind == "ident" and t.text == "continue" and not any(a <= t.start < b for a, b in spans)]
            region = apply_edits(region, eds)
            if eds: rules.append("R19")
        # a statement nested in the region that is a region of its own (verified separately against the same text) is replaced
        # by a call to its synthetic function
        for call in rg.get("calls", []):
            anc, repl = call[0], call[1]; kth = call[2] if len(call) > 2 else None
            nn = region.count(anc)
            if kth is None:
                if nn != 1: raise ExtractError("anchor lost: region-call %r occurs %d times in the region of %s %s" % (anc[:40], nn, path, selector))
                a2 = region.index(anc)
            else:
                # `#k`: the k-th occurrence in the region text as it is when this directive is applied (list them from the last to the first)
                if nn < kth: raise ExtractError("anchor lost: region-call %r #%d: only %d occurrences in the region of %s %s" % (anc[:40], kth, nn, path, selector))
                a2 = -1
                for _ in range(kth): a2 = region.index(anc, a2 + 1)
            t2, st2 = _sig_with_index(region)
            i2 = next((i for i, t in enumerate(st2) if t.start == a2), None)
            if i2 is None or not _stmt_start(st2, i2):
                raise ExtractError("region-call anchor is not the first token of a statement in %s %s" % (path, selector))
            c2 = _stmt_extent(st2, i2)
            region = region[:st2[i2].start] + repl + region[st2[c2].end:]
        pc.span = [start + r_lo, start + r_hi]
        pc.orig = orig[r_lo:r_hi]
        pc.sha256 = hashlib.sha256(pc.orig.encode()).hexdigest()
        pc.region = {"header": rg["as"], "prologue": rg.get("prologue", ""), "epilogue": rg.get("epilogue", ""), "nested_fns_cut": len(cuts), "nested_regions_called": [{"anchor": c[0], "call": c[1], "occurrence": (c[2] if len(c) > 2 else None)} for c in rg.get("calls", [])]}
        text = "%s\n{\n%s\n%s\n%s\n}" % (rg["as"], rg.get("prologue", ""), region, rg.get("epilogue", ""))
        rules.append("R16")
    # attributes: types keep their derive attributes (R2 edits), everything else dropped
    derive = [a for a in it.attrs if re.match(r"#\[derive\(", a)]
    prefix = ""
    if it.kind in ("struct", "enum") and derive:
        dl = []
        for a in derive:
            inner = a[a.index("(") + 1:a.rindex(")")]
            dl += [x.strip() for x in inner.split(",") if x.strip()]
        for d in directives.get("derive", []):
            for w in d.split():
                if w.startswith("+") and w[1:] not in dl: dl.append(w[1:]); rules.append("R2")
                elif w.startswith("-") and w[1:] in dl: dl.remove(w[1:]); rules.append("R2")
        if dl:
            prefix = "#[derive(%s)]\n" % ", ".join(dl)
    elif it.kind in ("struct", "enum"):
        adds = [w[1:] for d in directives.get("derive", []) for w in d.split() if w.startswith("+")]
        if adds:
            prefix = "#[derive(%s)]\n" % ", ".join(adds); rules.append("R2")
    for a in directives.get("attr", []):
        prefix += a + "\n"
    # (R16, used on a whole function) a run of statements that is a region verified on its own is replaced by a call of its synthetic function
    for (a0_, a1_, repl_) in directives.get("callrange", []):
        if text.count(a0_) != 1: raise ExtractError("anchor lost: call-range start %r occurs %d times in %s %s" % (a0_[:40], text.count(a0_), path, selector))
        t2, st2 = _sig_with_index(text)
        p0 = text.index(a0_)
        i2 = next((i for i, t in enumerate(st2) if t.start == p0), None)
        if i2 is None or not _stmt_start(st2, i2): raise ExtractError("call-range start is not the first token of a statement in %s %s" % (path, selector))
        if a1_:
            if text.count(a1_) != 1: raise ExtractError("anchor lost: call-range end %r occurs %d times in %s %s" % (a1_[:40], text.count(a1_), path, selector))
            p1 = text.index(a1_)
            j2 = next((i for i, t in enumerate(st2) if t.start == p1), None)
            if j2 is None or not _stmt_start(st2, j2) or j2 < i2: raise ExtractError("call-range end is not the first token of a later statement in %s %s" % (path, selector))
        else: j2 = i2
        c2 = _stmt_extent(st2, j2)
        text = text[:st2[i2].start] + repl_ + text[st2[c2].end:]
        pc.substs.append({"from": a0_ + " .. " + (a1_ or ""), "to": repl_, "count": 1, "kind": "call-range"}); rules.append("R16")
    # declared substitutions (R11)
    for (a, b, allflag) in directives.get("subst", []):
        n = text.count(a)
        if n == 0 and allflag == "opt":
            continue    # `subst?`: the construct is not (any longer) in the code; nothing to name
        if n == 0 or (n != 1 and allflag != "all"):
            raise ExtractError("anchor lost: subst text %r occurs %d times in %s %s" % (a, n, path, selector))
        text = text.replace(a, b)
        pc.substs.append({"from": a, "to": b, "count": n}); rules.append("R11")
    # R20: a call of a pure forwarding method is replaced by the expression it forwards to, after checking - on every run - that the
    # body of that method still is exactly the expected single expression
    for (a, b, fpath, fsel, fbody) in directives.get("forward", []):
        fsf, fit = locate(fpath, fsel)
        ftext = fsf.src[fit.start:fit.end]
        fst = sig(lex(ftext))
        fbo = next(j for j, x in enumerate(fst) if x.kind == "punct" and x.text == "{")
        got = norm(ftext[fst[fbo].end:fst[match_close(fst, fbo)].start])
        if got != norm(fbody):
            raise ExtractError("anchor lost: forwarder %s :: %s no longer has the body %r" % (fpath, fsel, fbody))
        n = text.count(a)
        if n != 1: raise ExtractError("anchor lost: forward text %r occurs %d times in %s %s" % (a, n, path, selector))
        text = text.replace(a, b)
        pc.substs.append({"from": a, "to": b, "count": 1, "forwarder": "%s :: %s" % (fpath, fsel), "forwarder_body": fbody}); rules.append("R20")
    if directives.get("closurecalls") and it.kind == "fn":
        text = rule_r30(text, rules, directives["closurecalls"])
    if it.kind == "fn" or it.kind == "impl" or it.kind == "trait":
        if it.kind == "fn":
            text = rule_r13(text, rules)
        text = rule_r8(text, rules)
        text = rule_r9(text, rules)
        text = rule_r5(text, rules)
        text = rule_r14(text, rules)
        text = rule_r14b(text, rules)
        text = rule_r14(text, rules)
        text = rule_r4(text, rules)
        text = rule_r17(text, rules)
        text = rule_r22(text, rules)
        text = rule_r31(text, rules)
        text = rule_r24(text, rules)
        text = rule_r25(text, rules)
        text = rule_r27(text, rules)
        text = rule_r28(text, rules)
        text = rule_r29(text, rules)
        if directives.get("encodecalls"):
            text = rule_r26(text, rules, directives["encodecalls"])
        if directives.get("fornext") and it.kind == "fn":
            text = rule_r18(text, rules, directives["fornext"])
        if "r3" in opts:
            text = rule_r3(text, rules)
        else:
            text = rule_r3(text, rules, only_guarded=True)
        if "lift" in opts:
            if "Self::" in text:
                text = text.replace("Self::", ""); rules.append("R6")
    in_trait = bool(re.match(r"^(impl\b.*\bfor\b.+?|trait\s+\w+)\s+::\s+fn\s+\w+$", selector.strip())) or it.kind == "impl"
    if it.kind in ("fn", "struct", "enum"):
        text = rule_r12(text, it.kind, in_trait, rules)
    # drop doc comments inside types (field docs are harmless but `//!` is not)
    if it.kind == "fn":
        text = splice_fn(text, opts, directives, path, selector)
    elif any(k in directives for k in ("sig", "entry", "tail", "exit", "tail-after", "loop", "loop-end", "loop-after", "before", "after", "ret")):
        raise ExtractError("splice directives only apply to fn items (%s)" % selector)
    pc.text = prefix + text
    return pc

def splice_fn(text, opts, directives, path, selector):
    where = "%s :: %s" % (path, selector)
    st, bo, arrow, wh = _fn_parts(text)
    edits = []
    if "decl" in opts or "stub" in opts:
        if bo is not None:
            bc = match_close(st, bo)
            edits.append((st[bo].start, st[bc].end, "__DECL_BODY__" if "decl" in opts else "{ unimplemented!() }"))
    if "ret" in directives:
        name = directives["ret"]
        if arrow is None:
            raise ExtractError("ret: no return type in %s" % where)
        # return type runs from arrow+1 to (where | body_open | ;)
        stop = wh if wh is not None else bo
        if stop is None:
            stop = len(st) - 1
        edits.append((st[arrow + 1].start, st[arrow + 1].start, "(%s: " % name))
        edits.append((st[stop - 1].end, st[stop - 1].end, ")"))
    sigtxt = directives.get("sig")
    if sigtxt is not None:
        if bo is not None:
            edits.append((st[bo].start, st[bo].start, "\n" + sigtxt + "\n"))
        else:
            # declaration ending with ;
            semi = len(st) - 1
            edits.append((st[semi].start, st[semi].start, "\n" + sigtxt + "\n"))
    if bo is not None and "decl" not in opts and "stub" not in opts:
        if "entry" in directives:
            edits.append((st[bo].end, st[bo].end, "\n" + directives["entry"] + "\n"))
        if "tail" in directives:
            p = _tail_pos(text, st, bo)
            edits.append((p, p, "\n" + directives["tail"] + "\n"))
        if "tail-after" in directives:
            p = _tail_pos(text, st, bo)
            bc_ = match_close(st, bo)
            if p >= st[bc_].start:
                raise ExtractError("anchor lost: %s has no tail expression (tail-after)" % where)
            edits.append((p, p, "let __tail_r = "))
            edits.append((st[bc_].start, st[bc_].start, ";\n" + directives["tail-after"] + "\n__tail_r\n"))
        if "exit" in directives:
            # just before the closing brace of the body (for functions returning `()`)
            bc_ = match_close(st, bo)
            edits.append((st[bc_].start, st[bc_].start, "\n" + directives["exit"] + "\n"))
        loops = _loop_headers(text, st, bo)
        for (n, itername, ltxt) in directives.get("loop", []):
            if n < 1 or n > len(loops):
                raise ExtractError("anchor lost: loop %d of %s (has %d)" % (n, where, len(loops)))
            kwi, lbo = loops[n - 1]
            if itername:
                # find `in` of this for
                j = kwi + 1
                while True:
                    y = st[j]
                    if y.kind == "punct" and y.text in OPEN:
                        j = match_close(st, j) + 1; continue
                    if y.kind == "ident" and y.text == "in": break
                    j += 1
                edits.append((st[j].end, st[j].end, " %s:" % itername))
            edits.append((st[lbo].start, st[lbo].start, "\n" + ltxt + "\n"))
        for (n, ltxt) in directives.get("loop-after", []):
            if n < 1 or n > len(loops):
                raise ExtractError("anchor lost: loop %d of %s (has %d)" % (n, where, len(loops)))
            lbc = match_close(st, loops[n - 1][1])
            edits.append((st[lbc].end, st[lbc].end, "\n" + ltxt + "\n"))
        for (n, ltxt) in directives.get("loop-end", []):
            if n < 1 or n > len(loops):
                raise ExtractError("anchor lost: loop %d of %s (has %d)" % (n, where, len(loops)))
            lbc = match_close(st, loops[n - 1][1])
            edits.append((st[lbc].start, st[lbc].start, "\n" + ltxt + "\n"))
        bstart = st[bo].end
        for (kind, anchor, k, atxt) in directives.get("anchors", []):
            occ = [m.start() for m in re.finditer(re.escape(anchor), text) if m.start() >= bstart]
            if (k is None and len(occ) != 1) or (k is not None and k > len(occ)):
                raise ExtractError("anchor lost: %r occurs %d times in %s" % (anchor, len(occ), where))
            pos = occ[0 if k is None else k - 1]
            if kind == "after": pos += len(anchor)
            edits.append((pos, pos, "\n" + atxt + "\n"))
    out = apply_edits(text, edits)
    out = out.replace("__DECL_BODY__", ";")
    return out

# ---------------------------------------------------------------------------------------------
# template processing

def _parse_quoted(s):
    m = re.match(r'\s*"((?:[^"\\]|\\.)*)"\s*(.*)$', s)
    if not m: raise ExtractError("bad quoted anchor: %s" % s)
    q = m.group(1).replace('\\"', '"').replace("\\n", "\n").replace("\\\\", "\\")
    return q, m.group(2)

class Generated:
    def __init__(self):
        self.text = ""
        self.pieces = []      # Piece
        self.labels = {}      # line number (1-based) -> label
        self.label_text = {}  # label -> clause text
        self.generated = []   # descriptions of generated oracle text

def auto_helper(path, name):
    """R15: a free function that a copied body calls but the unit does not list.  If it is a single side-effect-free
    expression (no statements, no `let`, no macro other than matches!), copy it with the contract `ensures r == <its body>`,
    so that callers see exactly what it computes; otherwise refuse (the unit stays undecided)."""
    sf = source(path)
    found = sf.find_top("fn", name)
    if len(found) != 1:
        return None
    it = found[0]
    text = sf.src[it.start:it.end]
    st, bo, arrow, wh = _fn_parts(text)
    if bo is None or arrow is None: return None
    bc = match_close(st, bo)
    body_toks = st[bo + 1:bc]
    if any(t.kind == "punct" and t.text == ";" for t in body_toks): return None
    if any(t.kind == "ident" and t.text in ("let", "return", "loop", "while", "for", "unsafe") for t in body_toks): return None
    for k, t in enumerate(body_toks):
        if t.kind == "punct" and t.text == "!" and k > 0 and body_toks[k - 1].kind == "ident" and body_toks[k - 1].text != "matches": return None
        if t.kind == "punct" and t.text == "&" and k + 1 < len(body_toks) and body_toks[k + 1].text == "mut": return None
    body = text[st[bo].end:st[bc].start].strip()
    pc = Piece(); pc.path = path; pc.selector = "fn " + name; pc.span = [it.start, it.end]; pc.orig = text
    pc.sha256 = hashlib.sha256(text.encode()).hexdigest(); pc.rules = ["R1", "R15"]
    stop = wh if wh is not None else bo
    new = text[:st[arrow + 1].start] + "(r: " + text[st[arrow + 1].start:st[stop - 1].end] + ")" + text[st[stop - 1].end:st[bo].start] \
          + "\n    ensures r == (" + body + "),\n" + text[st[bo].start:]
    new = rule_r12(new, "fn", False, pc.rules)
    pc.text = "// ---- extracted (R15: helper pulled in automatically, contract = its own body): %s :: fn %s\n%s" % (path, name, new)
    return pc

def generate(spec_path, open_findings=(), auto_helpers=()):
    """open_findings: set of finding ids that are open (for //@ if-open)."""
    lines = open(spec_path).read().split("\n")
    out = []
    gen = Generated()
    i = 0
    cond_stack = []  # True = emitting
    derive_policy = []
    def emitting():
        return all(cond_stack)
    while i < len(lines):
        ln = lines[i]
        s = ln.strip()
        if s.startswith("//@"):
            d = s[3:].strip()
            if d.startswith("if-open "):
                cond_stack.append(d.split()[1] in open_findings); i += 1; continue
            if d.startswith("if-closed "):
                cond_stack.append(d.split()[1] not in open_findings); i += 1; continue
            if d == "else":
                cond_stack[-1] = not cond_stack[-1]; i += 1; continue
            if d == "endif":
                cond_stack.pop(); i += 1; continue
            if not emitting():
                i += 1; continue
            if d.startswith("include "):
                inc = os.path.join(os.path.dirname(spec_path), d[8:].strip())
                if not os.path.exists(inc):
                    inc = os.path.join(os.path.dirname(os.path.dirname(os.path.abspath(__file__))), "specs", d[8:].strip())
                lines[i:i + 1] = open(inc).read().split("\n")
                continue
            if d.startswith("generate optable "):
                from . import optable
                txt, carriers = optable.gen(d.split()[2])
                out.extend(txt.split("\n"))
                gen.generated.append("operator oracle %s_refs/with_%s_refs from wasmparser for_each_operator! (%d carriers)" % (d.split()[2], d.split()[2], len(carriers)))
                i += 1; continue
            if d.startswith("generate opcode "):
                # every default method of the trait, each with the postcondition its NAME demands
                # (specs/opcode_table.tsv: helper -> operator variant + field bindings)
                trait = d.split()[2]
                tpath = "src/opcode.rs"
                table = {}
                for tl in open(os.path.join(os.path.dirname(os.path.dirname(os.path.abspath(__file__))), "specs", "opcode_table.tsv")):
                    if tl.startswith("#") or not tl.strip(): continue
                    parts = tl.rstrip("\n").split("\t")
                    table[parts[0]] = (parts[1], parts[2] if len(parts) > 2 else "")
                sf = source(tpath)
                tr = sf.find_trait(trait)
                if len(tr) != 1: raise ExtractError("anchor lost: trait %s in %s" % (trait, tpath))
                for c in tr[0].children or []:
                    if c.kind != "fn": continue
                    if c.name not in table:
                        raise ExtractError("helper %s::%s has no row in opcode_table.tsv (new helper: extend the table)" % (trait, c.name))
                    variant, binds = table[c.name]
                    if binds:
                        flds = ", ".join("%s: %s" % tuple(b.split("=", 1)) for b in binds.split(";"))
                        opx = "Operator::%s { %s }" % (variant, flds)
                    else:
                        opx = "Operator::%s" % variant
                    dd = {"ret": "r", "sig": ("        ensures\n"
                          "            r.log() == old(self).log().push(%s),      //# %s.%s.emits_exactly_the_named_instruction\n"
                          "            final(self).log() == final(r).log(),") % (opx, trait, c.name)}
                    pc = extract_item(tpath, "trait %s :: fn %s" % (trait, c.name), [], dd, open_findings)
                    gen.pieces.append(pc)
                    out.append("// ---- extracted: %s :: trait %s :: fn %s  [%s]" % (tpath, trait, c.name, ",".join(sorted(set(pc.rules)))))
                    out.extend(pc.text.split("\n"))
                i += 1; continue
            if d.startswith("derive-policy "):
                # e.g.  //@ derive-policy +Structural DataType FunctionID   |  -Default *
                ws = d.split()
                derive_policy.append((ws[1], ws[2:]))
                i += 1; continue
            if d.startswith("types "):
                ws = d.split()
                path = ws[1]; only = None; exc = []
                for w in ws[2:]:
                    if w.startswith("only="): only = w[5:].split(",")
                    elif w.startswith("except="): exc = w[7:].split(",")
                sf = source(path)
                for it in sf.items:
                    if it.kind not in ("struct", "enum"): continue
                    if only is not None and it.name not in only: continue
                    if it.name in exc: continue
                    dd = {"derive": [pol for pol, names in derive_policy if "*" in names or it.name in names]}
                    pc = extract_item(path, "%s %s" % (it.kind, it.name), [], dd, open_findings)
                    gen.pieces.append(pc)
                    out.append("// ---- extracted: %s :: %s %s  [%s]" % (path, it.kind, it.name, ",".join(sorted(set(pc.rules)))))
                    out.extend(pc.text.split("\n"))
                i += 1; continue
            if d.startswith("item "):
                body = d[5:]
                opts = []
                if "|" in body:
                    # opts after the last ` | `
                    k = body.rfind(" | ")
                    if k >= 0:
                        opts = [o.strip() for o in body[k + 3:].split(",") if o.strip()]
                        body = body[:k]
                path, selector = body.split("::", 1)
                path = path.strip(); selector = selector.strip()
                directives = {}
                cur = None; buf = []
                def flush():
                    nonlocal cur, buf
                    if cur is None: return
                    txt = "\n".join(buf)
                    if cur[0] in ("sig", "entry", "tail", "exit", "tail-after"):
                        directives[cur[0]] = (directives.get(cur[0], "") + "\n" + txt) if cur[0] in directives else txt
                    elif cur[0] == "loop":
                        directives.setdefault("loop", []).append((cur[1], cur[2], txt))
                    elif cur[0] in ("loop-end", "loop-after"):
                        directives.setdefault(cur[0], []).append((cur[1], txt))
                    elif cur[0] in ("before", "after"):
                        directives.setdefault("anchors", []).append((cur[0], cur[1], cur[2], txt))
                    cur = None; buf = []
                i += 1
                inner_cond = []
                while True:
                    if i >= len(lines): raise ExtractError("unterminated item block in %s" % spec_path)
                    s2 = lines[i].strip()
                    if s2.startswith("//@"):
                        d2 = s2[3:].strip()
                        if d2.startswith("if-open "):
                            inner_cond.append(d2.split()[1] in open_findings); i += 1; continue
                        if d2.startswith("if-closed "):
                            inner_cond.append(d2.split()[1] not in open_findings); i += 1; continue
                        if d2 == "else" and inner_cond:
                            inner_cond[-1] = not inner_cond[-1]; i += 1; continue
                        if d2 == "endif" and inner_cond:
                            inner_cond.pop(); i += 1; continue
                        if not all(inner_cond):
                            i += 1; continue
                        flush()
                        if d2 == "end": i += 1; break
                        if d2.startswith("region-start "):
                            q, _r = _parse_quoted(d2[len("region-start "):]); directives.setdefault("region", {})["start"] = q
                            if _r.strip().startswith("#"): directives["region"]["start_k"] = int(_r.strip()[1:])
                        elif d2.startswith("call-range "):
                            a_, rest_ = _parse_quoted(d2[len("call-range "):])
                            b_ = None
                            if rest_.strip().startswith(".."):
                                b_, rest_ = _parse_quoted(rest_.strip()[2:])
                            if not rest_.strip().startswith("=>"): raise ExtractError("bad call-range: %s" % d2)
                            c_, _r = _parse_quoted(rest_.strip()[2:])
                            directives.setdefault("callrange", []).append((a_, b_, c_))
                        elif d2.startswith("region-closure "):
                            q, _r = _parse_quoted(d2[len("region-closure "):]); directives.setdefault("region", {})["closure"] = q
                            directives["region"]["start"] = None
                        elif d2.startswith("closure-calls "):
                            a_, rest_ = _parse_quoted(d2[len("closure-calls "):])
                            if not rest_.strip().startswith("=>"): raise ExtractError("bad closure-calls: %s" % d2)
                            b_, rest2_ = _parse_quoted(rest_.strip()[2:])
                            if not rest2_.strip().startswith("with"): raise ExtractError("bad closure-calls (no `with`): %s" % d2)
                            c_, _r = _parse_quoted(rest2_.strip()[4:])
                            directives.setdefault("closurecalls", []).append((a_, b_, c_))
                        elif d2.startswith("encode-calls "):
                            a_, rest_ = _parse_quoted(d2[len("encode-calls "):])
                            if not rest_.strip().startswith("=>"): raise ExtractError("bad encode-calls: %s" % d2)
                            b_, _r = _parse_quoted(rest_.strip()[2:])
                            directives.setdefault("encodecalls", []).append((a_, b_))
                        elif d2.startswith("region-loop-iterable "):
                            q, _r = _parse_quoted(d2[len("region-loop-iterable "):]); directives.setdefault("region", {})["start"] = q
                            directives["region"]["iter_only"] = True
                            mk = re.match(r"\s*#(\d+)", _r or "")
                            if mk: directives["region"]["start_k"] = int(mk.group(1))
                        elif d2.startswith("region-loop-body "):
                            q, _r = _parse_quoted(d2[len("region-loop-body "):]); directives.setdefault("region", {})["start"] = q
                            directives["region"]["body_only"] = True
                            if _r.strip().startswith("#"): directives["region"]["start_k"] = int(_r.strip()[1:])
                        elif d2.startswith("region-end "):
                            q, _r = _parse_quoted(d2[len("region-end "):]); directives.setdefault("region", {})["end"] = q
                        elif d2.startswith("region-call "):
                            a_, rest_ = _parse_quoted(d2[len("region-call "):])
                            rest_ = rest_.strip(); k_ = None
                            mk_ = re.match(r"#(\d+)\s*", rest_)
                            if mk_: k_ = int(mk_.group(1)); rest_ = rest_[mk_.end():]
                            if not rest_.startswith("=>"): raise ExtractError("bad region-call: %s" % d2)
                            b_, _r = _parse_quoted(rest_[2:])
                            directives.setdefault("region", {}).setdefault("calls", []).append((a_, b_) if k_ is None else (a_, b_, k_))
                        elif d2.startswith("region-continue "): directives.setdefault("region", {})["continue"] = d2[len("region-continue "):].strip()
                        elif d2.startswith("region-as "): directives.setdefault("region", {})["as"] = d2[len("region-as "):].strip()
                        elif d2.startswith("region-prologue "): directives.setdefault("region", {})["prologue"] = d2[len("region-prologue "):].strip()
                        elif d2.startswith("region-epilogue "): directives.setdefault("region", {})["epilogue"] = d2[len("region-epilogue "):].strip()
                        elif d2.startswith("ret "): directives["ret"] = d2[4:].strip()
                        elif d2.startswith("derive "): directives.setdefault("derive", []).append(d2[7:].strip())
                        elif d2.startswith("attr "): directives.setdefault("attr", []).append(d2[5:].strip())
                        elif d2 in ("sig", "entry", "tail", "exit", "tail-after"): cur = (d2,)
                        elif d2.startswith("for-next "):
                            ws = d2.split(); kv = dict(w.split("=", 1) for w in ws[2:])
                            directives.setdefault("fornext", []).append((int(ws[1]), kv["into"], kv["next"], kv.get("iter", "__it%s" % ws[1])))
                        elif d2.startswith("loop-end ") or d2.startswith("loop-after "):
                            cur = (d2.split()[0], int(d2.split()[1]))
                        elif d2.startswith("loop "):
                            ws = d2.split()
                            itn = None
                            for w in ws[2:]:
                                if w.startswith("iter="): itn = w[5:]
                            cur = ("loop", int(ws[1]), itn)
                        elif d2.startswith("before ") or d2.startswith("after "):
                            kind = d2.split()[0]
                            q, rest = _parse_quoted(d2[len(kind):])
                            k = int(rest.strip()[1:]) if rest.strip().startswith("#") else None
                            cur = (kind, q, k)
                        elif d2.startswith("forward "):
                            a_, rest_ = _parse_quoted(d2[len("forward "):])
                            if not rest_.startswith("=>"): raise ExtractError("bad forward: %s" % d2)
                            b_, rest2_ = _parse_quoted(rest_[2:])
                            m_ = re.match(r"^\s*via\s+(\S+)\s+::\s+(.+?)\s+==\s+(.*)$", rest2_)
                            if not m_: raise ExtractError("bad forward (need `via FILE :: SELECTOR == \"BODY\"`): %s" % d2)
                            body_, _r = _parse_quoted(m_.group(3))
                            directives.setdefault("forward", []).append((a_, b_, m_.group(1), m_.group(2), body_))
                        elif d2.startswith("subst ") or d2.startswith("subst? "):
                            optional = d2.startswith("subst? ")
                            a, rest = _parse_quoted(d2[7 if optional else 6:])
                            if not rest.startswith("=>"): raise ExtractError("bad subst: %s" % d2)
                            b, rest2 = _parse_quoted(rest[2:])
                            directives.setdefault("subst", []).append((a, b, "all" if rest2.strip() == "#all" else ("opt" if optional else "")))
                        else:
                            raise ExtractError("unknown directive: %s" % s2)
                    else:
                        if all(inner_cond):
                            if cur is None:
                                if s2: raise ExtractError("stray text in item block: %s" % s2)
                            else:
                                buf.append(lines[i])
                    i += 1
                m_ty = re.match(r"^(struct|enum)\s+(\w+)$", selector)
                if m_ty:
                    for pol, names in derive_policy:
                        if "*" in names or m_ty.group(2) in names:
                            directives.setdefault("derive", []).append(pol)
                pc = extract_item(path, selector, opts, directives, open_findings)
                gen.pieces.append(pc)
                out.extend(("// ---- extracted: %s :: %s  [%s]" % (path, selector, ",".join(sorted(set(pc.rules))))).split("\n"))
                out.extend(pc.text.split("\n"))
                continue
            raise ExtractError("unknown directive outside item: %s" % s)
        else:
            if emitting():
                out.append(ln)
            i += 1
    # collect labels
    for n, l in enumerate(out, 1):
        m = re.search(r"//#\s*([\w.\-]+)", l)
        if m:
            gen.labels[n] = m.group(1)
            gen.label_text[m.group(1)] = l.split("//#")[0].strip()
    if auto_helpers:
        # insert before the last closing of the verus! block
        k = max(i for i, l in enumerate(out) if l.strip().startswith("} // verus!"))
        extra = []
        for pc in auto_helpers:
            gen.pieces.append(pc)
            extra.extend(pc.text.split("\n"))
        out[k:k] = extra
        gen.labels = {}; gen.label_text = {}
        for n, l in enumerate(out, 1):
            m = re.search(r"//#\s*([\w.\-]+)", l)
            if m:
                gen.labels[n] = m.group(1)
                gen.label_text[m.group(1)] = l.split("//#")[0].strip()
    gen.text = "\n".join(out) + "\n"
    return gen
