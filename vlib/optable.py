"""Operator-reference oracle, derived from wasmparser's own `for_each_operator!` table (the source
of the linked rlib in the offline cargo registry) - NOT from wirm's lists.  For an index family
(func / global / mem) it emits Verus spec functions
   X_refs(op) -> Seq<u32>           the X indices an operator carries, in field order
   with_X_refs(op, f) -> Operator   the operator with every X index i replaced by f(i) and every
                                    other immediate unchanged
   X_refs_in(op, dom) -> bool       all X indices are in dom
"""
import glob, re

FAMILY_FIELDS = {
    "func": ["function_index"],
    "global": ["global_index"],
    "mem": ["memarg", "mem", "dst_mem", "src_mem"],
}

def table():
    roots = sorted(glob.glob("/root/.cargo/registry/src/*/wasmparser-0.235.0/src/lib.rs"))
    if not roots:
        raise RuntimeError("wasmparser 0.235.0 source not found in the cargo registry")
    s = open(roots[0]).read()
    i = s.index("macro_rules! _for_each_operator_group"); j = s.index("macro_rules!", i + 10)
    ops = re.findall(r'^\s+(\w+)(?: \{([^}]*)\})? => (visit_\w+)', s[i:j], re.M)
    out = []
    for n, f, v in ops:
        fields = [x.strip().split(":")[0].strip() for x in f.split(",") if x.strip()]
        out.append((n, fields))
    if len(out) < 500:
        raise RuntimeError("operator table parse looks wrong: %d operators" % len(out))
    return out

def gen(family):
    ff = FAMILY_FIELDS[family]
    X = family
    refs = ["pub open spec fn %s_refs(op: Operator) -> Seq<u32> {\n    match op {" % X]
    w = ["pub open spec fn with_%s_refs(op: Operator, f: spec_fn(u32) -> u32) -> Operator {\n    match op {" % X]
    carriers = []
    for n, fields in table():
        mine = [x for x in fields if x in ff]
        if not mine: continue
        carriers.append(n)
        pat = "Operator::%s { %s }" % (n, ", ".join(fields))
        items = []
        repl = []
        for x in fields:
            if x == "memarg" and x in mine:
                items.append("memarg.memory")
                repl.append("memarg: wasmparser::MemArg { align: memarg.align, max_align: memarg.max_align, offset: memarg.offset, memory: f(memarg.memory) }")
            elif x in mine:
                items.append(x); repl.append("%s: f(%s)" % (x, x))
            else:
                repl.append(x)
        refs.append("        %s => seq![%s]," % (pat, ", ".join(items)))
        w.append("        %s => Operator::%s { %s }," % (pat, n, ", ".join(repl)))
    refs.append("        _ => Seq::empty(),\n    }\n}")
    w.append("        _ => op,\n    }\n}")
    dom = ["pub open spec fn %s_refs_in(op: Operator, dom: Set<u32>) -> bool {" % X,
           "    forall|k: int| 0 <= k < %s_refs(op).len() ==> dom.contains(#[trigger] %s_refs(op)[k])" % (X, X), "}"]
    hdr = "// ---- generated from wasmparser 0.235.0 for_each_operator!: %d operators carry a %s index\n" % (len(carriers), X)
    return hdr + "\n".join(refs) + "\n\n" + "\n".join(w) + "\n\n" + "\n".join(dom) + "\n", carriers

def gen_variant_set(name, variants):
    """spec predicate: op is one of the listed variants"""
    out = ["pub open spec fn %s(op: Operator) -> bool {\n    match op {" % name]
    for v in variants:
        out.append("        Operator::%s { .. } => true," % v)
    out.append("        _ => false,\n    }\n}")
    return "\n".join(out) + "\n"
