"""Property table: which contract units and which obligations carry each property.

Obligation ids:
  <unit>.<label>            a labelled contract clause (`//# label` in the unit spec)
  <unit>.fn:<qualname>      everything else Verus proves about that function: absence of panics,
                            overflow, out-of-bounds, callee preconditions at its call sites,
                            termination, unlabelled clauses, lemma bodies
  K:<harness>               a Kani harness (complete over its finite symbolic domain unless listed
                            under `bounded`)
Patterns below are fnmatch globs over those ids.
"""

GLUE_COMMON = [
    "Module::parse_internal (src/ir/module/mod.rs) - not under contract",
    "Module::encode_internal (src/ir/module/mod.rs) - not under contract",
]

PROPS = {
    "C14": {
        "title": "Added locals get fresh indices of the requested type",
        "units": ["V1_locals"],
        "obligations": ["V1_locals.*"],
        "kani": [],
        "glue": ["emission of the locals vector in Module::encode_internal (one loop over body.locals)",
                 "ModuleIterator / ComponentIterator add_local forwarders (one-line delegations to Functions::add_local)"],
        "design_ref": "DESIGN.md §4 V1, §5 C14",
    },
}

NOT_APPLICABLE = {}
