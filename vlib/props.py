"""Property table: which contract units and which obligations carry each property.

Obligation ids:
  <unit>.<label>            a labelled contract clause (`//# label` in the unit spec)
  <unit>.fn:<qualname>      everything else Verus proves about that function: absence of panics,
                            overflow, out-of-bounds, callee preconditions at its call sites,
                            termination, unlabelled clauses, lemma bodies
  K:<harness>               a Kani harness (complete over its finite symbolic domain unless listed
                            under `bounded`)
Patterns below are fnmatch globs over those ids.
"""

GLUE_COMMON = [
    "Module::parse_internal (src/ir/module/mod.rs) - not under contract",
    "Module::encode_internal (src/ir/module/mod.rs) - not under contract",
]

V2_GENERIC = [
    "V2_reindex.reorganise_generic.*", "V2_reindex.fn:reorganise_generic",
    "V2_reindex.get_mapping_generic.*", "V2_reindex.fn:get_mapping_generic",
    "V2_reindex.recalculate_ids.*", "V2_reindex.fn:recalculate_ids",
    "V2_reindex.lemma.*", "V2_reindex.fn:lemma_*", "V2_reindex.fn:sel", "V2_reindex.fn:sel_idx",
    "V2_reindex.LocalOrImport.is_import_is_not_local",
    "V2_reindex.compute_index_mappings.*", "V2_reindex.fn:Module::compute_index_mappings",
]
def v2_inst(item, cont):
    return ["V2_reindex.fn:%s as GetID::*" % item, "V2_reindex.fn:%s as LocalOrImport::*" % item,
            "V2_reindex.fn:%s as ReIndexable::*" % cont, "V2_reindex.fn:%s as Iter::*" % cont]

V6_FUNCS = ["V6_api.add_import_func.*", "V6_api.fn:Module::add_import_func_with_tag", "V6_api.add_local_func.*", "V6_api.fn:Module::add_local_func_with_tag",
            "V6_api.delete_func.*", "V6_api.fn:Module::delete_func", "V6_api.Functions.*", "V6_api.fn:Functions::*", "V6_api.fn:Function::*",
            "V6_api.ModuleImports.*", "V6_api.fn:ModuleImports::*", "V6_api.fn:Module::add_import", "V6_api.fn:LocalFunction::new", "V6_api.LocalFunction.*",
            "V6_api.convert_import_fn_to_local.*", "V6_api.fn:Module::convert_import_fn_to_local",
            "V6_api.convert_local_fn_to_import.*", "V6_api.fn:Module::convert_local_fn_to_import_with_tag", "V6_api.convert_local_fn_to_import_untagged.*", "V6_api.fn:Module::convert_local_fn_to_import", "V6_api.kf.convert_local_fn_to_import.keeps_import_order",
            "V2_reindex.lemma.import_order_survives_reorganisation", "V2_reindex.fn:lemma_import_order_preserved", "V2_reindex.fn:lemma_origin_monotone_on_imports"]
V6_GLOBALS = ["V6b_api2.add_global.*", "V6b_api2.add_imported_global.*", "V6b_api2.delete_global.*", "V6b_api2.mod_global_init_expr.*", "V6b_api2.ModuleGlobals.*",
              "V6b_api2.Global.*", "V6b_api2.ModuleIterator.add_global.*", "V6b_api2.fn:Module::add_global_internal", "V6b_api2.fn:Module::add_global_with_tag",
              "V6b_api2.fn:Module::add_imported_global_with_tag", "V6b_api2.add_imported_global_untagged.*", "V6b_api2.fn:Module::add_imported_global", "V6b_api2.fn:Module::delete_global", "V6b_api2.fn:Module::mod_global_init_expr",
              "V6b_api2.fn:ModuleGlobals::*", "V6b_api2.fn:Global::*", "V6b_api2.fn:ImportedGlobal::new", "V6b_api2.fn:ModuleIterator as IteratingInstrumenter::add_global"]
V6_MEMS = ["V6b_api2.add_local_memory.*", "V6b_api2.add_import_memory.*", "V6b_api2.delete_memory.*", "V6b_api2.Memories.*", "V6b_api2.fn:Memories::*", "V6b_api2.fn:Memory::delete",
           "V6b_api2.fn:Module::add_local_memory_with_tag", "V6b_api2.fn:Module::add_import_memory_with_tag", "V6b_api2.add_local_memory_untagged.*", "V6b_api2.fn:Module::add_local_memory", "V6b_api2.add_import_memory_untagged.*", "V6b_api2.fn:Module::add_import_memory", "V6b_api2.fn:Module::delete_memory"]
V6_DELETES = ["V6_api.delete_func.*", "V6_api.fn:Module::delete_func", "V6_api.Functions.delete.*", "V6_api.fn:Functions::delete", "V6_api.ModuleImports.delete.*", "V6_api.fn:ModuleImports::delete",
              "V6b_api2.delete_global.*", "V6b_api2.fn:Module::delete_global", "V6b_api2.ModuleGlobals.delete.*", "V6b_api2.fn:ModuleGlobals::delete",
              "V6b_api2.delete_memory.*", "V6b_api2.fn:Module::delete_memory", "V6b_api2.Memories.delete.*", "V6b_api2.fn:Memories::delete",
              "V6b_api2.ModuleExports.delete.*", "V6b_api2.fn:ModuleExports::delete"]

V8_BASE = ["V8_lower.fn:lemma_*", "V8_lower.fn:FunctionModifier as *", "V8_lower.fn:Instrumenter::*", "V8_lower.fn:Inject::inject", "V8_lower.fn:Inject::inject_all", "V8_lower.inject_all.*", "V8_lower.fn:Opcode::*",
           "V8_lower.fn:InstrumentationFlag::*", "V8_lower.fn:Instruction::add_instr", "V8_lower.fn:FuncInstrFlag::add_instr", "V8_lower.fn:v_inject_all",
           # which functions the lowering visits at all (rule R23, unit V2)
           "V2_reindex.functions_visited_by_the_lowering.*", "V2_reindex.fn:Module::functions_visited_by_the_lowering"]
LOWER_GLUE = ["Module::resolve_special_instrumentation: the per-function driver (block stack, which helper runs at which instruction, delete_block / retain_end bookkeeping, resolve_on_end maps) is not under contract, EXCEPT (i) the head of an outer iteration (unit V15, region take_function_level_code: exactly the local functions marked as carrying special instrumentation are lowered, their function-level entry / exit code is handed over as injected and the stored lists emptied, the FuncProbe records pulled) and the preparation of entry / exit code before the inner loop and (ii) WHICH functions the outer loop visits (rule R23, unit V2: every local function of the re-organised container; F30), (iii) ONE ITERATION of the inner loop (rule R19) for thirteen cases, each a contract on the same extracted text restricted by its `requires`: inside a removed construct; the opener carrying a block-alternate (also with function-level entry / exit code pending: the entry code is placed in front of instruction 0 before the opener is replaced, and spent); the matching `end` of a removed construct; an opener with only a block-entry probe; a block / loop with only a block-exit probe; a single-target branch with only a semantic-after probe; a br_table with only a semantic-after probe (flag created, due at the end of every target and of the default, request consumed); an `end` outside any removed construct with bodies pending in either or both tables (the two flush loops are replaced there by calls of the flush regions, verified on their own against the same text: both tables are flushed at this `end` and their entries taken off) - with function-level entry / exit code possibly pending: at the function's last instruction the wrapper block is closed and the exit code follows, spent there; an `else` outside any removed construct with bodies pending for 'the else or the end' of its `if` (flushed here, taken off, the other table untouched; the closure expression `block_stack.last().and_then(|b| table.remove(b))` that takes the entry off is verified as the match it stands for, rule R29); an `else` that carries a block-alternate (pending bodies of its `if` are still flushed here, then the else-arm is replaced and removed up to the `end`, which stays); a block / loop / if with ANY combination of block-entry, block-exit and semantic-after requests (each placed resp. registered as if it were alone, all consumed); an ordinary (not block-structured) instruction without special request, with function-level code possibly pending: entry code once in front of instruction 0, a copy of the exit code in front of every instruction that leaves the function (the four opener / branch cases are stated for functions without function-level entry / exit code). All other combinations (several special requests on a branch, special requests on `else` / `end` other than a block-alternate on `else`, function-level code together with a special request) are NOT decided; the plan tables are seen through the std HashMap view both where entries are added (save_* helpers, proved) and where they are removed and flushed; the lemmas `registered_is_flushed.*` connect the two (the code emitted for an entry is a function of its plan view; a registered body is emitted after what was already due under the same construct and mode, every other entry keeps its code), but the composition over a whole function body (registration at the opener, flush at the matching end, many iterations apart) is not stated as one theorem",
              "the final emission of before / alternate / after lists in encode_internal",
              "'fires once when ...' is an execution-trace property: neither verifier has a WebAssembly semantics; what is proved is WHERE each helper places WHICH code (placement contracts written from the property text)",
              "TRUSTED: Inject::inject_all injects the slice in order (closure capturing &mut self)"]

V18_TYPES = ["V18_parse_types.convert_subtype.*", "V18_parse_types.fn:Module::convert_subtype", "V18_parse_types.parse_type_section.*", "V18_parse_types.fn:Module::parse_type_section", "V18_parse_types.DataType.from_storage_type.*", "V18_parse_types.fn:DataType as From::from", "V18_parse_types.fn:RecGroup::new", "V18_parse_types.fn:lemma_*", "V18_parse_types.fn:Error as From::from"]
V18_TRUST = "type-section arm of parse_internal (V18): wasmparser's SubType / CompositeType / FieldType / ArrayType / StructType / ContType / StorageType are taken as they are (public fields); FuncType through params() / results(); a recursion group through two uninterpreted observers (explicitness, member list) behind wrappers that stand for `ty.clone()?.is_explicit_rec_group()` and `ty?.types()`; DataType::from(ValType) is an uninterpreted dt_of (total on what the reader yields - it panics on UnpackedIndex::Id, which only the validator produces; exactness: Kani K1); derived Clone of CompositeInnerType / Types yield equal values; precondition: the type ids handed out so far are 0..n and the section fits below 2^32"
V19_CODE = ["V19_parse_code.parse_code_entry.*", "V19_parse_code.fn:Module::parse_code_entry", "V19_parse_code.check_section_counts.*", "V19_parse_code.fn:Module::check_section_counts", "V19_parse_code.parse_start_section.*", "V19_parse_code.fn:Module::parse_start_section", "V19_parse_code.fn:lemma_*", "V19_parse_code.fn:Error as From::from"]
V19_TRUST = "code-entry arm of parse_internal (V19): a function body of the reader is two sequences of items (local declarations, operators; an entry or a read error each, the sum of the declared counts fits u32 - LocalsReader::read fails with 'too many locals' otherwise); the two `collect::<Result<Vec<_>, _>>()` over the external iterators are named wrappers ASSUMED to gather all entries or hand on an error; DataType::from(ValType) as dt_of; Instruction::new gives the operator with an empty flag (derived Default); `num_locals += count` (a `&u32` operand) is read as `+= *count` (std's forwarding impl)"
V17_SKELETON = ["V17_encode_skeleton.encode_internal.*", "V17_encode_skeleton.fn:Module::encode_internal", "V17_encode_skeleton.fn:lemma_prefix_*", "V17_encode_skeleton.fn:*::is_empty",
                "V12_sections.encode_globals.nothing_a_section_guard_reads_changes", "V12_sections.encode_data_segments.nothing_a_section_guard_reads_changes", "V11_emit.encode_code_section.nothing_a_section_guard_reads_changes"]
V17_TEXT = "the function as a whole (unit V17): with every region replaced by a call of its synthetic function, what is left of encode_internal is verified against the regions' contracts: the sections are handed to the module in the order the binary format prescribes, each exactly when its part of the module is there (name section always, then one custom section per stored one); the lowering pass gets the three maps of the head, each in its own position. The CONTENT contracts of the regions are not composed there (their preconditions - e.g. 'every live export designates a live item' - are not derived from the head's postcondition): what each section contains is decided per region"
ENCODE_GLUE = "Module::encode_internal (src/ir/module/mod.rs): every section's emission loop is a region under contract (units V2 head, V11 function / code sections, V12 all other sections, V13 / V14 constant expressions and types as written), and the function as a whole is verified against those contracts for the ORDER and PRESENCE of the sections (V17). What is not done: the composition of the content contracts - the regions' preconditions (e.g. every live export designates a live item, every operator refers to live items) are not derived from the head's postcondition and a well-formedness invariant of the module; that the three maps handed to the regions are the head's is by construction (the regions are cut from one function text and share its local names)"
V11_EMIT = ["V11_emit.encode_function_body.*", "V11_emit.fn:encode_function_body", "V11_emit.update_ids_and_encode.*", "V11_emit.fn:update_ids_and_encode",
            "V11_emit.fn:InstrumentationFlag::has_instr", "V11_emit.fn:InstrumentationFlag::check_special_is_resolved", "V11_emit.fn:lowered_upto"]
V12_EXPORTS = ["V12_sections.encode_exports.*", "V12_sections.fn:Module::encode_exports", "V12_sections.fn:ModuleExports::iter"]
V12_START = ["V12_sections.encode_start.*", "V12_sections.fn:Module::encode_start"]
V12_DATA = ["V12_sections.encode_data_segments.*", "V12_sections.fn:Module::encode_data_segments"]
V12_GLOBALS = ["V12_sections.encode_globals.*", "V12_sections.fn:Module::encode_globals", "V12_sections.fn:ModuleGlobals::iter_mut", "V12_sections.fn:Global as GetID::*"]
V12_IMPORTS = ["V12_sections.encode_imports.*", "V12_sections.fn:Module::encode_imports", "V12_sections.fn:ModuleImports::iter", "V12_sections.fn:Import::is_function"]
V12_MEMS = ["V12_sections.encode_memories.local_memories_in_order_with_own_type", "V12_sections.fn:Module::encode_memories", "V12_sections.fn:Memories as Iter::iter"]
V12_CEXPR = ["V12_sections.encode_element_exprs.*", "V12_sections.fn:Module::encode_element_exprs", "V12_sections.remap_const_expr.*", "V12_sections.fn:remap_const_expr"]
V12_TABLES = ["V12_sections.encode_tables.every_table_in_order_with_own_type_and_remapped_initialiser", "V12_sections.fn:Module::encode_tables", "V12_sections.fn:ModuleTables::iter"]
V12_TAGS = ["V12_sections.encode_tags.*", "V12_sections.fn:Module::encode_tags"]
V12_ELEMS = ["V12_sections.encode_elements.every_segment_in_order_with_the_images_of_its_references", "V12_sections.fn:Module::encode_elements"]
V10_PARSE_SECTIONS = ["V10_parse.parse_tag_section.*", "V10_parse.fn:parse_tag_section", "V10_parse.parse_export_section.*", "V10_parse.fn:parse_export_section", "V10_parse.Export.from.*", "V10_parse.fn:Export as From::from",
                      "V10_parse.parse_element_section.*", "V10_parse.fn:parse_element_section", "V10_parse.ElementKind.from_wasmparser.*", "V10_parse.fn:ElementKind::from_wasmparser",
                      "V10_parse.ElementItems.from_wasmparser.*", "V10_parse.fn:ElementItems::from_wasmparser", "V10_parse.fn:Element::new", "V10_parse.fn:lemma_first_err", "V10_parse.fn:lemma_first_err_le", "V10_parse.fn:lemma_first_bad_elem",
                      "V10_parse.parse_import_section.*", "V10_parse.fn:parse_import_section", "V10_parse.ModuleImports.new.*", "V10_parse.fn:ModuleImports::new", "V10_parse.fn:Import as From::from",
                      "V10_parse.fn:Import::is_*", "V10_parse.fn:lemma_n_of_le",
                      "V10_parse.parse_global_section.*", "V10_parse.fn:parse_global_section", "V10_parse.Global.from_wasmparser.*", "V10_parse.fn:Global::from_wasmparser", "V10_parse.fn:lemma_first_bad_glob",
                      "V10_parse.parse_memory_section.*", "V10_parse.fn:parse_memory_section", "V10_parse.parse_function_section.*", "V10_parse.fn:parse_function_section",
                      "V10_parse.parse_data_section.*", "V10_parse.fn:parse_data_section", "V10_parse.DataSegment.from_wasmparser.*", "V10_parse.fn:DataSegment::from_wasmparser",
                      "V10_parse.DataSegmentKind.from_wasmparser.*", "V10_parse.fn:DataSegmentKind::from_wasmparser", "V10_parse.fn:lemma_first_bad_data",
                      "V10_parse.InitExpr.eval.*", "V10_parse.fn:InitExpr::eval", "V10_parse.fn:eval_spec",
                      "V10_parse.parse_table_section.*", "V10_parse.fn:parse_table_section", "V10_parse.fn:Table::new"]
# what PARSING establishes for the three index spaces: ids are positions, imports first (the base case of fwf / gwf / mwf and of reindex_ready)
PARSE_CONTAINERS = ["V6b_api2.Functions.new.*", "V6b_api2.fn:Functions::new", "V6b_api2.Memories.new.*", "V6b_api2.fn:Memories::new", "V6b_api2.ModuleExports.new.*", "V6b_api2.fn:ModuleExports::new", "V6b_api2.ModuleTables.new.*", "V6b_api2.fn:ModuleTables::new"]
PARSE_IDS_FUNCS = ["V6b_api2.Functions.new.*", "V6b_api2.fn:Functions::new", "V10_parse.build_functions.*", "V10_parse.fn:build_functions", "V10_parse.parse_import_section.*", "V10_parse.fn:parse_import_section", "V10_parse.ModuleImports.new.*",
                   "V10_parse.fn:ModuleImports::new", "V10_parse.fn:ModuleImports::iter", "V10_parse.fn:lemma_n_func_imports_le", "V10_parse.fn:Function::new", "V10_parse.fn:ImportedFunction::new"]
PARSE_IDS_GLOBALS = ["V6b_api2.ModuleGlobals.new.*", "V6b_api2.fn:ModuleGlobals::new", "V6b_api2.fn:lemma_n_glob_imports_le", "V6b_api2.fn:ModuleImports::iter"]
PARSE_IDS_MEMS = ["V6b_api2.Memories.new.*", "V6b_api2.fn:Memories::new", "V6b_api2.build_memories.*", "V6b_api2.fn:Module::build_memories", "V6b_api2.fn:Memory::new", "V6b_api2.fn:lemma_n_mem_imports_le"]
PARSE_IDS_GLUE = "that the three re-indexing preconditions hold for a freshly parsed module is decided for each index space on the code that builds it at the end of parse_internal (functions: V10 region build_functions; globals: ModuleGlobals::new; memories: V6b region build_memories - ids are positions, imports first, counters = numbers of imports of each kind); that these pieces are put into the Module unchanged (the struct literal at the end of parse_internal) is read off the text"
V13_CONSTEXPR = ["V13_constexpr.to_wasmencoder_type.*", "V13_constexpr.fn:InitExpr::to_wasmencoder_type"]
V13_TRUST = "TRUSTED model of wasm-encoder's instruction encoder (V13): a byte buffer is viewed as the sequence of constant instructions encoded into it and `<instruction>.encode(&mut bytes)` appends one; rule R26 writes each such expression as a call of a named emitter (one per variant / field order), so which variant is written with which operands is read off the code; ConstExpr::raw keeps the bytes; wasmparser's UnpackedIndex is one of module index / rec-group index / core type id"
V14_TYPES = ["V14_types_emit.encode_type.*", "V14_types_emit.fn:encode_type", "V14_types_emit.StorageType.from.*", "V14_types_emit.fn:StorageType as From::from"]
V14_TRUST = "TRUSTED in V14: wasm_encoder::FuncType::new and the StructType literal hold exactly the lists they are given (named constructors, rule R11); wasm_encoder::ValType::from(&DataType) is an uninterpreted we_valtype_of (its exactness: Kani K1); PackedIndex::as_module_index is an uninterpreted observer; a continuation type cannot be written out (`todo!()`: precondition - stack switching is outside the feature profile of C01)"
V12_CUSTOM = ["V12_sections.encode_custom_sections.*", "V12_sections.fn:Module::encode_custom_sections", "V12_sections.fn:CustomSections::iter"]
V12_TRUST = ["TRUSTED model of the wasm-encoder section builders (V12): an export / data / custom section under construction is the sequence of entries handed to it; ExportKind::from(ExternalKind) is faithful; InitExpr::to_wasmencoder_type is faithful (assumed in V12; PROVED in V13 against the instruction-encoder model, numeric constants also by Kani K4, the index-carrying ones by Kani K6 in the thorough tier)",
             "V12 names three expressions of the data loop and one statement of the custom-section loop by rule R11 (iterator adapters / generic builders are outside Verus): their contracts are assumed; V12 assumes the InitInstr::fix_id_mapping contract that V3 proves",
             "rule R16: the loops / statements are cut out of encode_internal by text anchors and wrapped in declared headers; the side-effect records they also build (C23) are not specified"]
V11_CODE = ["V11_emit.encode_function_section.*", "V11_emit.fn:Module::encode_function_section", "V11_emit.fn:Function::kind", "V11_emit.encode_code_section.*", "V11_emit.fn:Module::encode_code_section", "V11_emit.fn:Functions::is_deleted", "V11_emit.fn:Functions::get_kind", "V11_emit.fn:Functions::get_mut",
            "V11_emit.fn:Function::unwrap_local_mut", "V11_emit.fn:FuncKind::unwrap_local_mut"] + V11_EMIT
V11_TRUST = ["TRUSTED model of wasm-encoder (V11): a function body under construction is the sequence of operators handed to Function::instruction; RoundtripReencoder::instruction converts each operator faithfully (the nested fn `encode` is assumed)",
             "V11 assumes the contract of fix_op_id_mapping that unit V3 proves (same clause text); wasmparser's derived Clone for Operator yields an equal value"]

PROPS = {
    "C01": {
        "title": "Unmodified parse-then-encode yields a valid module",
        "units": ["V9b_conv", "V12_sections", "V10_parse", "V14_types_emit", "V17_encode_skeleton", "V11_emit"],
        "kani": ["k1_valtype_roundtrip", "k1_valtype_roundtrip_exn_cont", "k1_valtype_encoder_matches_upstream"],
        "obligations": ["K:k1_*", "V9b_conv.*.into_wasmparser.*", "V9b_conv.fn:* as From::from"],
        "obligations_extra": V14_TYPES + V12_TAGS + V12_TABLES + V12_ELEMS + V12_CEXPR + V10_PARSE_SECTIONS + V17_SKELETON,
        "glue": [V17_TEXT, V14_TRUST] + ["of Module::parse_internal the import, function, memory, global, export, element, data and tag arms are under contract (V10, against a trusted model of the section readers); of Module::encode_internal the tag, table and element sections are (V12 regions: every stored tag / table / element segment is re-emitted in order with its own kind, type and contents; wasm-encoder's section builders and the heap-type re-encoding are TRUSTED models), the other sections are claimed by the properties they matter for; `passes validation` is a predicate of wasmparser's validator over bytes produced there: not decided",
                 "profile of K1: numeric and vector types, unshared abstract heap types, concrete module type indices < 2^20; `shared` heap types and RecGroup/Id indices are outside it"],
        "design_ref": "DESIGN.md §4 K1, §5 C01",
        "level_text": "The library's own type-conversion layer and the re-emission of the tag, table and element sections: every value type of the profile survives ValType -> DataType -> ValType unchanged and is re-emitted as exactly the wasm-encoder type upstream's re-encoder produces (Kani, complete over the profile); heap-type and block-type conversions are proved exact (Verus).",
    },
    "C02": {
        "title": "Unmodified round trip preserves module content",
        "units": ["V3_remap", "V9b_conv", "V11_emit", "V12_sections", "V10_parse", "V13_constexpr", "V14_types_emit", "V17_encode_skeleton", "V6b_api2", "V18_parse_types", "V19_parse_code"],
        "obligations_extra": V14_TYPES + V13_CONSTEXPR + V10_PARSE_SECTIONS + V11_EMIT + V11_CODE + V12_TAGS + V12_TABLES + V12_ELEMS + V12_CEXPR + V12_IMPORTS + V12_EXPORTS + V12_START + V12_DATA + V12_GLOBALS + V12_MEMS + V12_CUSTOM + V17_SKELETON + PARSE_IDS_FUNCS + PARSE_IDS_GLOBALS + PARSE_IDS_MEMS + V18_TYPES + V19_CODE + PARSE_CONTAINERS
                             + ["V12_sections.encode_type_section.groups_in_order_explicit_ones_as_one_rec_entry", "V12_sections.fn:Module::encode_type_section", "V12_sections.encode_names.*", "V12_sections.fn:Module::encode_names"],
        "kani": ["k1_valtype_roundtrip", "k1_valtype_roundtrip_exn_cont", "k1_valtype_encoder_matches_upstream", "k4_v128_bytes_preserved", "k4_ieee32_from_float_bits", "k4_ieee64_from_float_bits"],
        "kani_thorough": ["k5_spec_global_get", "k5_spec_ref_func", "k5_spec_struct_new", "k5_spec_struct_new_default", "k5_spec_array_new", "k5_spec_array_new_default", "k5_spec_ref_i31"],   # about 4 min of CBMC together: thorough tier only
        "obligations": ["K:k5_spec_*"] + ["K:k1_*", "K:k4_*", "V3_remap.lemma.identity_remap_is_noop", "V3_remap.fn:lemma_identity_remap_is_noop", "V3_remap.fix_op_id_mapping.*", "V3_remap.fn:fix_op_id_mapping", "V3_remap.update_*", "V3_remap.fn:update_*", "V3_remap.refers_to_*", "V3_remap.fn:refers_to_*",
                        "V9b_conv.*.into_wasmparser.*", "V9b_conv.fn:* as From::from"],
        "glue": [V19_TRUST, V18_TRUST, V17_TEXT, V14_TRUST] + [V13_TRUST] + V11_TRUST + V12_TRUST + ["of parse_internal the import, function, memory, global, export, element, data and tag arms are regions under contract, with InitExpr::eval (every constant instruction is read into its IR counterpart with its own immediates in their own positions; anything else is an error) (the import arm with ModuleImports::new: each counter is the number of imports of its kind, nothing counted as added) (V10: the IR holds exactly the entries the section reader yields, in order, with their own contents, and a read error anywhere - also in an element segment's own item reader - makes the parse fail), against a TRUSTED model of wasmparser's section readers (a reader denotes a finite sequence of entries / read errors and iterating yields it front to back; `collect` of a reader is ASSUMED to gather it); the `.map(closure).collect::<Result<_, _>>()?` / `extend(..map(..))` chains of those arms are written as loops by rules R24 / R25; Result::and_then is ASSUMED with its textbook meaning; of the table arm only the number of stored tables and the error behaviour are decided (what a stored table holds is computed by a closure handed to Result::map, whose result Verus does not know without an annotation in the source); the type and code-entry arms, the start / data-count payloads, the name and custom sections are NOT under contract; of encode_internal every section's emission loop is a region under contract (V11 / V12) against TRUSTED models of wasm-encoder's section builders; that the sections are appended to the module in the standard order, and the `if !..is_empty()` guards around them, are read off the text",
                 "InitExpr::eval / to_wasmencoder_type (constant expressions) are not under contract: only the bit-exactness of the float / v128 wrappers they use is proved"],
        "design_ref": "DESIGN.md §4 K1 K4, §5 C02",
        "level_text": "Instructions survive encode's in-place id rewrite when nothing was edited (identity maps leave every operator unchanged: corollary of the exact remap contract), value types survive the IR, float / v128 constants keep their bits. Of the sections, the ENCODE side is under contract region by region (every stored type group, import, function type index, table, memory, tag, global, export, start function, element segment, function body, data segment and custom section is emitted in stored order with its own contents); of the PARSE side the import, function, memory, global, export, element, data and tag arms are under contract (the IR holds exactly what the section readers yield, in order), the other arms are glue.",
    },
    "C03": {
        "title": "Parsing never panics",
        "units": ["V10_parse", "V7_types", "V6_api", "V18_parse_types", "V19_parse_code"],
        "obligations": ["V10_parse.InitExpr.eval.*", "V10_parse.fn:InitExpr::eval", "V10_parse.DataSegmentKind.*", "V10_parse.fn:DataSegmentKind::from_wasmparser",
                        "V10_parse.Global.*", "V10_parse.fn:Global::from_wasmparser", "V10_parse.fn:Error as From::from",
                        "V10_parse.parse_tag_section.*", "V10_parse.fn:parse_tag_section", "V10_parse.parse_function_names.*", "V10_parse.fn:parse_function_names",
                        "V10_parse.apply_function_names.*", "V10_parse.fn:apply_function_names", "V10_parse.parse_producers.*", "V10_parse.fn:parse_producers",
                        "V10_parse.build_local_functions.*", "V10_parse.fn:build_local_functions", "V10_parse.add_to_sections.*", "V10_parse.fn:Component::add_to_sections", "V10_parse.parse_module_section.*", "V10_parse.fn:parse_module_section", "V10_parse.parse_component_section.*", "V10_parse.fn:Component::parse_component_section", "V10_parse.fn:Function::new", "V10_parse.fn:Import::is_function",
                        "V7_types.fn:ModuleTypes::new", "V6_api.fn:LocalFunction::new"],
        # the section arms of parse_internal / parse_comp that are under contract for C02 / C27: a verified function cannot panic
        "obligations_extra": V19_CODE + V18_TYPES + V10_PARSE_SECTIONS + ["V10_parse.parse_comp_*_section.*", "V10_parse.fn:Component::parse_comp_*_section", "V10_parse.fn:lemma_first_err"],
        "glue": [V19_TRUST, V18_TRUST, "the payload loops of Module::parse_internal and Component::parse_comp (480 + 300 lines) are NOT under contract as a whole; regions of parse_internal are (rule R16): the type / tag / export / element / import / global / memory / function / data / table section arms and the code-entry arm (whatever the reader yields - any entries, a read error anywhere - the arm returns Ok or Err, it does not panic; the import arm assumes a section has at most 2^32-1 entries, which the binary format's u32 count guarantees), the function-names loop, the application of the names, the producers section, the construction of the functions / globals / memories at the end; and of parse_comp: the core-module and nested-component section arms (slicing the input with the unchecked range of the section header) and the eight plain section arms, the start arm and the custom-section arm (other than the component-name section). The start / custom / name arms of parse_internal and `_ => todo!()` (unreachable for this wasmparser version: every Payload variant is listed) are not decided",
                 "rule R18: loops over wasmparser section readers are written as `loop { match next() .. }`; the readers are TRUSTED to yield any item or error and to terminate",
                 "the precondition functions.len() == code_sections.len() of the local-functions region is established by the IncorrectCodeCounts check a few lines above it (read, not proved)",
                 "TRUSTED model of the operator reader: read() returns any operator or an error and consumes at least one byte when it succeeds"],
        "design_ref": "DESIGN.md §5 C03",
        "level_text": "Partial: five regions of parse_internal with panic sites of their own (all repaired: F20, F21) and the callees of the parse path that are separate functions - the constant-expression reader (for ANY operator sequence the reader may yield, including read errors), the data-segment-kind and global converters, the type-table constructor, LocalFunction::new - are proved free of panics, overflow and non-termination. The two payload loops themselves are glue.",
    },
    "C04": {
        "title": "Encoding is deterministic",
        "units": ["V7_types", "V8_lower"],
        "census": True,
        "obligations": ["V8_lower.flush_*", "V8_lower.fn:Module::flush_*", "V8_lower.resolve_bodies.*", "V8_lower.fn:resolve_bodies", "V7_types.ModuleTypes.new.*", "V7_types.fn:ModuleTypes::new", "V7_types.add_type.*", "V7_types.fn:ModuleTypes::add_type"],
        "glue": ["the HashMap iteration sites listed as UNCOVERED in evidence.coverage.hashmap_iteration_census (ModuleTypes::iter, handed to library users, not used by encode) are in code that is not under contract; the three sites in resolve_special_instrumentation are under contract (V8: the code flushed at an else / end does not depend on the order in which the per-mode registry is walked)", "TRUSTED: derived Hash / Eq of InstrumentationMode obey the HashMap key model",
                 "everything else in encode_internal walks Vecs in index order; that claim is by reading, not by proof"],
        "design_ref": "DESIGN.md §5 C04",
        "level_text": "In the verifier's logic the iteration order of a HashMap is unspecified, so a function that iterates one verifies only if its postcondition pins the result whatever the order. That obligation is discharged for ModuleTypes::new (the lookup map maps each type to the least id carrying it) and add_type is a function of the map; the other iteration sites are listed, not proved.",
    },
    "C13": {
        "title": "Added types are exact and deduplicated",
        "units": ["V7_types", "V12_sections", "V14_types_emit"],
        "obligations": ["V7_types.add_*", "V7_types.fn:ModuleTypes::add_*", "V7_types.ModuleTypes.*", "V7_types.fn:ModuleTypes::new", "V7_types.fn:ModuleTypes::get", "V7_types.fn:ModuleTypes::len", "V7_types.fn:RecGroup::new"],
        "obligations_extra": V14_TYPES + ["V12_sections.encode_type_section.*", "V12_sections.fn:Module::encode_type_section"],
        "glue": [V14_TRUST] + ["the recursion-group emission loop of encode_internal is a region under contract (V12) and Module::encode_type (IR type -> wasm-encoder SubType) is proved in V14: the written type says what the IR type says (finality, supertype, sharedness, parameter / result / field types in order, each field with its own mutability)",
                 "TRUSTED: the hand-written PartialEq / Hash of `Types` implement equality up to the tag (key_of), and the three HashMap<Types,TypeID> operations behave as a map over that key (contracts of tm_contains_key / tm_entry_or_insert / tm_insert / tm_get)"],
        "design_ref": "DESIGN.md §4 V7, §5 C13",
        "level_text": "Over an abstract map keyed by 'type up to tag': every adder returns an id that designates exactly the requested type, re-uses the id of an identical type, gives a new type the next id in its own implicit group, and leaves every existing (id, type) pair unchanged; for all tables and all types.",
    },
    "C05": {
        "title": "Encoding again without edits gives the same bytes",
        "units": ["V2_reindex", "V8_lower", "V3_remap", "V12_sections"],
        "obligations": ["V2_reindex.kf.recalculate_ids.reestablishes_id_invariant",
                        "V2_reindex.recalculate_ids.container_is_intended_order", "V2_reindex.fn:recalculate_ids",
                        "V2_reindex.fn:lemma_reorganised_distinct",
                        # resolved function-level instrumentation is consumed (cannot be lowered a second time)
                        "V8_lower.resolve_function_entry.*", "V8_lower.fn:resolve_function_entry", "V8_lower.resolve_function_exit.*", "V8_lower.fn:resolve_function_exit",
                        # ... and so is every instruction-level special request, by the driver iteration that lowers it (a request that stays would be lowered again by a second encode)
                        "V8_lower.lower_block_entry_opener.*", "V8_lower.fn:Module::lower_block_entry_opener", "V8_lower.lower_block_exit_opener.*", "V8_lower.fn:Module::lower_block_exit_opener",
                        "V8_lower.lower_opener_with_several_requests.each_request_placed_and_consumed", "V8_lower.fn:Module::lower_opener_with_several_requests",
                        "V8_lower.lower_semantic_after_branch.flag_created_and_request_consumed", "V8_lower.fn:Module::lower_semantic_after_branch",
                        "V8_lower.lower_semantic_after_br_table.flag_created_and_request_consumed", "V8_lower.fn:Module::lower_semantic_after_br_table",
                        "V8_lower.lower_block_alt_opener.opener_replaced_and_request_consumed", "V8_lower.fn:Module::lower_block_alt_opener", "V8_lower.lower_else_block_alt.*", "V8_lower.fn:Module::lower_else_block_alt",
                        # with identity maps (what a second encode must see) the in-place rewrite changes nothing
                        "V3_remap.lemma.identity_remap_is_noop", "V3_remap.fn:lemma_identity_remap_is_noop"],
        "obligations_extra": V12_DATA + ["V12_sections.kf.encode_data_segments.*"],
        "glue": V12_TRUST + [ENCODE_GLUE, "Module::resolve_special_instrumentation driver loop (flags are resolved in place)"],
        "design_ref": "DESIGN.md §4 V2, §5 C05",
        "level_text": "The re-indexing core is proved to produce the intended order for all inputs; the obligation that a second encode needs (stored ids equal positions again after the call) is a separate obligation that fails on the current code and is listed as known finding F03.",
    },
    "C06": {
        "title": "Function references stay bound to the same function across edits",
        "units": ["V2_reindex", "V3_remap", "V6_api", "V11_emit", "V12_sections", "V10_parse", "V13_constexpr", "V6b_api2"],
        "kani_thorough": ["k5_spec_ref_func"],
        "obligations": ["K:k5_spec_ref_func"] + V2_GENERIC + v2_inst("Function", "Functions") + V6_FUNCS + [
            "V3_remap.refers_to_func.*", "V3_remap.fn:refers_to_func", "V3_remap.update_fn_instr.*", "V3_remap.fn:update_fn_instr",
            "V3_remap.fix_op_id_mapping.*", "V3_remap.fn:fix_op_id_mapping", "V3_remap.InitInstr.*", "V3_remap.fn:InitInstr::fix_id_mapping",
            "V3_remap.fn:lemma_families_disjoint"],
        "obligations_extra": V13_CONSTEXPR + PARSE_IDS_FUNCS + V12_CEXPR + V12_ELEMS + V12_TABLES + V12_IMPORTS + V12_EXPORTS + V12_START + V12_DATA + ["V11_emit.fn:encode_function_body", "V11_emit.update_ids_and_encode.*", "V11_emit.fn:update_ids_and_encode"],
        "glue": [V13_TRUST] + [PARSE_IDS_GLUE] + V11_TRUST + V12_TRUST + [ENCODE_GLUE, "export / start / element-segment remapping lines in encode_internal", "'output validates' (wasmparser validator) is not decided"],
        "design_ref": "DESIGN.md §4 V2 V3, §5 C06",
    },
    "C07": {
        "title": "Global references stay bound to the same global across edits",
        "units": ["V2_reindex", "V3_remap", "V6b_api2", "V11_emit", "V12_sections", "V13_constexpr"],
        "kani_thorough": ["k5_spec_global_get"],
        "obligations": ["K:k5_spec_global_get"] + V2_GENERIC + v2_inst("Global", "ModuleGlobals") + V6_GLOBALS + [
            "V3_remap.refers_to_global.*", "V3_remap.fn:refers_to_global", "V3_remap.update_global_instr.*", "V3_remap.fn:update_global_instr",
            "V3_remap.fix_op_id_mapping.*", "V3_remap.fn:fix_op_id_mapping", "V3_remap.InitInstr.*", "V3_remap.fn:InitInstr::fix_id_mapping"],
        "obligations_extra": V13_CONSTEXPR + PARSE_IDS_GLOBALS + V12_CEXPR + V12_ELEMS + V12_TABLES + V12_GLOBALS + V12_EXPORTS + V12_DATA + ["V11_emit.fn:encode_function_body", "V11_emit.update_ids_and_encode.*", "V11_emit.fn:update_ids_and_encode"],
        "glue": [V13_TRUST] + [PARSE_IDS_GLUE] + V11_TRUST + V12_TRUST + [ENCODE_GLUE, "global export emission; table/element constant expressions", "'output validates' is not decided"],
        "design_ref": "DESIGN.md §4 V2 V3, §5 C07",
    },
    "C08": {
        "title": "Memory references stay bound to the same memory across edits",
        "units": ["V2_reindex", "V3_remap", "V6b_api2", "V11_emit", "V12_sections"],
        "obligations": V2_GENERIC + v2_inst("Memory", "Memories") + V6_MEMS + [
            "V3_remap.refers_to_memory.*", "V3_remap.fn:refers_to_memory", "V3_remap.update_memory_instr.*", "V3_remap.fn:update_memory_instr",
            "V3_remap.fix_op_id_mapping.*", "V3_remap.fn:fix_op_id_mapping"],
        "obligations_extra": PARSE_IDS_MEMS + V12_EXPORTS + V12_DATA + ["V11_emit.fn:encode_function_body", "V11_emit.update_ids_and_encode.*", "V11_emit.fn:update_ids_and_encode"],
        "glue": [PARSE_IDS_GLUE] + V11_TRUST + V12_TRUST + [ENCODE_GLUE, "data-segment memory index and memory export lines in encode_internal", "'output validates' is not decided"],
        "design_ref": "DESIGN.md §4 V2 V3, §5 C08",
    },
    "C09": {
        "title": "Deletion removes exactly the deleted entity",
        "units": ["V2_reindex", "V3_remap", "V6_api", "V6b_api2", "V11_emit", "V12_sections", "V10_parse"],
        "obligations": V2_GENERIC + v2_inst("Function", "Functions") + v2_inst("Global", "ModuleGlobals") + v2_inst("Memory", "Memories") + V6_DELETES + [
            "V3_remap.update_*_instr.*", "V3_remap.fn:update_*_instr", "V3_remap.fn:InitInstr::fix_id_mapping"],
        "obligations_extra": PARSE_IDS_FUNCS + PARSE_IDS_GLOBALS + PARSE_IDS_MEMS + V11_CODE + V12_EXPORTS + V12_START + V12_ELEMS + ["V11_emit.fn:encode_function_body", "V11_emit.update_ids_and_encode.*", "V11_emit.fn:update_ids_and_encode"],
        "glue": [PARSE_IDS_GLUE] + V11_TRUST + V12_TRUST + [ENCODE_GLUE, "ModuleExports::delete / ModuleImports::delete flags are honoured by emission loops in encode_internal",
                 "'fails loudly': update_* are proved panic-free exactly when every referenced id has an image; the converse (a missing image panics rather than writing an index) is by inspection of the three `None => panic!` arms"],
        "design_ref": "DESIGN.md §4 V2 V3, §5 C09",
    },
    "C10": {
        "title": "Replacing an import with a built function redirects all its uses",
        "units": ["V6_api", "V2_reindex", "V3_remap", "V12_sections", "V6b_api2"],
        "obligations": ["V6_api.convert_import_fn_to_local.*", "V6_api.fn:Module::convert_import_fn_to_local", "V6_api.delete_func.*", "V6_api.fn:Module::delete_func",
                        "V6_api.fn:Function::set_kind", "V6_api.fn:Functions::get_mut", "V6_api.Functions.get_fid_of_import.*", "V6_api.fn:Functions::get_fid_of_import", "V6_api.fn:lemma_first_defined_by", "V6_api.ModuleImports.delete.*", "V6_api.fn:ModuleImports::delete",
                        "V6_api.replace_import.*", "V6_api.fn:FunctionBuilder::replace_import_in_module_with_tag", "V6_api.replace_import_untagged.*", "V6_api.fn:FunctionBuilder::replace_import_in_module", "V6_api.fn:ModuleImports::get", "V6_api.fn:Types::params", "V6_api.fn:Types::results"]
                       + V2_GENERIC + v2_inst("Function", "Functions") + ["V3_remap.update_fn_instr.*", "V3_remap.fn:update_fn_instr", "V3_remap.refers_to_func.*"],
        "obligations_extra": V12_ELEMS + V12_CEXPR + V12_EXPORTS + V12_START,
        "glue": [ENCODE_GLUE, "FunctionBuilder::replace_import_in_module_with_tag is under contract; ASSUMED there: the element-wise `==` of two Vec<DataType> (named same_signature by R11), str::to_string, and ModuleTypes::get in terms of the abstract signature lookup (the concrete table is V7's)"],
        "design_ref": "DESIGN.md §5 C10",
    },
    "C11": {
        "title": "Converting a local function to an import redirects all its uses",
        "units": ["V6_api", "V2_reindex", "V3_remap", "V12_sections", "V6b_api2"],
        "obligations": ["V6_api.convert_local_fn_to_import.*", "V6_api.fn:Module::convert_local_fn_to_import_with_tag", "V6_api.convert_local_fn_to_import_untagged.*", "V6_api.fn:Module::convert_local_fn_to_import", "V6_api.kf.convert_local_fn_to_import.*",
                        "V6_api.fn:Module::add_import", "V6_api.ModuleImports.add.*", "V6_api.fn:ModuleImports::add", "V6_api.fn:Functions::set_imported_fn_name",
                        "V2_reindex.lemma.import_order_survives_reorganisation", "V2_reindex.fn:lemma_import_order_preserved", "V2_reindex.fn:lemma_origin_monotone_on_imports"]
                       + V2_GENERIC + v2_inst("Function", "Functions") + ["V3_remap.update_fn_instr.*", "V3_remap.fn:update_fn_instr", "V3_remap.refers_to_func.*"],
        "obligations_extra": V12_ELEMS + V12_CEXPR + V12_EXPORTS + V12_START,
        "glue": [ENCODE_GLUE],
        "design_ref": "DESIGN.md §5 C11",
    },
    "C28": {
        "title": "Custom sections are preserved and edited exactly",
        "units": ["V6b_api2", "V12_sections", "V16_comp_emit", "V10_parse", "V19_parse_code"],
        "obligations": ["V6b_api2.CustomSections.*", "V6b_api2.fn:CustomSections::*", "V6b_api2.fn:CustomSection::new_borrowed",
                        # components: the custom-section arm of Component::encode_comp
                        "V16_comp_emit.emit_custom_sections.*", "V16_comp_emit.fn:Component::emit_custom_sections", "V16_comp_emit.fn:CustomSections::get_by_id", "V16_comp_emit.fn:CustomSections::len",
                        "V10_parse.parse_comp_custom_section.*", "V10_parse.fn:Component::parse_comp_custom_section",
                        "V19_parse_code.store_custom_section*", "V19_parse_code.fn:Module::store_custom_section*"],
        "obligations_extra": V12_CUSTOM,
        "glue": V12_TRUST + ["parsing: the two sites of parse_internal (and the one of parse_comp) that store a custom section other than the name section are regions (name and bytes as read, behind the others) and CustomSections::new turns the pairs into the collection; WHICH custom sections count as the name section (as_known) is the reader's decision; emission: V12 (modules), V16 (components), V17 (behind the name section)",
                 "CustomSections::get_section_data_mut (Cow::to_mut) is not under contract; CustomSections::new is (rule R22: one section per (name, bytes) pair read, in order)"],
        "design_ref": "DESIGN.md §5 C28",
        "level_text": "The collection behaves as a sequence: add appends and returns the new index, delete removes exactly the addressed entry and keeps the order of the others, get_by_id returns exactly the addressed entry; for all contents and ids.",
    },
    "C30": {
        "title": "Module-level additions appear exactly as requested",
        "units": ["V6b_api2", "V3_remap", "V12_sections", "V13_constexpr"],
        "kani": ["k1_valtype_roundtrip", "k1_valtype_roundtrip_exn_cont", "k4_v128_bytes_preserved", "k4_ieee32_from_float_bits", "k4_ieee64_from_float_bits"],
        "kani_thorough": ["k4_initexpr_numeric_const_matches_upstream"] + ["k5_spec_global_get", "k5_spec_ref_func", "k5_spec_struct_new", "k5_spec_struct_new_default", "k5_spec_array_new", "k5_spec_array_new_default", "k5_spec_ref_i31"],   # ~4 min of CBMC each set: thorough tier only
        "obligations": ["K:k1_valtype_roundtrip*", "K:k4_*", "K:k5_spec_*"] + V6_GLOBALS + V6_MEMS + ["V6b_api2.add_data.*", "V6b_api2.fn:Module::add_data", "V6b_api2.ModuleExports.add_export_*", "V6b_api2.fn:ModuleExports::add_export_*",
                        "V3_remap.InitInstr.*", "V3_remap.fn:InitInstr::fix_id_mapping"],
        "obligations_extra": V13_CONSTEXPR + V12_MEMS + V12_GLOBALS + V12_EXPORTS + V12_DATA,
        "glue": [V13_TRUST] + V12_TRUST + [ENCODE_GLUE, "DataType -> ValType (content type) is abstract here (valtype_of); bit-exactness of numeric constants is decided by Kani K4, the other initialiser instructions by V13 against an instruction-encoder model"],
        "design_ref": "DESIGN.md §5 C30",
    },
    "C29": {
        "title": "Names stay attached to their entities",
        "units": ["V6_api", "V2_reindex", "V12_sections", "V11_emit"],
        "obligations": ["V6_api.set_fn_name.*", "V6_api.fn:Module::set_fn_name", "V6_api.Functions.set_local_fn_name.*", "V6_api.Functions.set_imported_fn_name.*",
                        "V6_api.fn:Functions::set_local_fn_name", "V6_api.fn:Functions::set_imported_fn_name", "V6_api.ModuleImports.set_name.*", "V6_api.fn:ModuleImports::set_name",
                        "V6_api.ModuleImports.set_fn_name.*", "V6_api.fn:ModuleImports::set_fn_name", "V6_api.fn:Import::is_function", "V6_api.fn:lemma_fn_imports_before_monotone",
                        "V2_reindex.recalculate_ids.live_items_stay_bound", "V2_reindex.reorganise_generic.*", "V2_reindex.fn:reorganise_generic"],
        "obligations_extra": ["V12_sections.encode_names.*", "V12_sections.fn:Module::encode_names", "V12_sections.kf.encode_names.*"] + V11_CODE + V12_IMPORTS,
        "glue": V12_TRUST + [ENCODE_GLUE, "TRUSTED axiom (ModuleImports::set_fn_name): the elements a dropped slice::IterMut has not yielded keep their values", "function names travel inside the Function / Body / Import items that V2 proves are permuted, never rebuilt; emission of the name section is glue",
                 "stored local-name and global-name maps (IndirectNameMap / NameMap) are re-emitted verbatim by encode_internal and are NOT re-indexed (seen while reading; not decidable by these checks)"],
        "design_ref": "DESIGN.md §5 C29",
    },
    "C12": {
        "title": "Built functions appear exactly as built",
        "units": ["V4_inject", "V1_locals", "V6_api", "V7_types", "V11_emit"],
        "obligations": ["V6_api.finish_module.*", "V6_api.fn:FunctionBuilder::finish_module_with_tag", "V6_api.finish_component.*", "V6_api.fn:FunctionBuilder::finish_component_with_tag", "V6_api.finish_module_untagged.*", "V6_api.fn:FunctionBuilder::finish_module", "V6_api.finish_component_untagged.*", "V6_api.fn:FunctionBuilder::finish_component", "V6_api.add_local_func.*", "V6_api.fn:Module::add_local_func_with_tag",
                        "V6_api.Functions.add_local_func.*", "V6_api.fn:Functions::add_local_func", "V6_api.fn:LocalFunction::new", "V6_api.LocalFunction.*",
                        "V6_api.kf.convert_local_fn_to_import.keeps_function_space_well_formed",
                        "V7_types.add_func_type.*", "V7_types.fn:ModuleTypes::add_func_type", "V7_types.add_type.*", "V7_types.fn:ModuleTypes::add_type",
                        "V4_inject.FunctionBuilder.*", "V4_inject.fn:FunctionBuilder as Inject::inject", "V4_inject.Body.*", "V4_inject.fn:Body::push_op", "V4_inject.fn:Body::end",
                        "V4_inject.fn:Instruction::new",
                        "V1_locals.fn:FunctionBuilder as AddLocal::add_local", "V1_locals.add_local.*", "V1_locals.fn:add_local", "V1_locals.fn:lemma_*"],
        "obligations_extra": V11_CODE,
        "glue": V11_TRUST + ["the function-section and code-section loops of encode_internal are regions under contract (V11: one type index per live local function in order; own locals and lowered body; a named local function named under its own index); what surrounds them in encode_internal is read off the text",
                 "FunctionBuilder::set_name is not under contract",
                 "in unit V6 the Opcode::end helper and ModuleTypes::add_func_type are assumed with the contracts proved in V9 and V7"],
        "design_ref": "DESIGN.md §5 C12",
        "level_text": "inject appends exactly the given operator; finish_module registers a local function whose body is the built sequence plus exactly one `end`, with the declared locals, at the returned id (= its position), with a type id that designates (params, results); every existing function is untouched and the library's own consistency assertion cannot fire under the invariant. Emission: the function section carries one type index per live local function, in order, and the code section exactly the stored locals and the lowered body of every live local function (regions of encode_internal, V11).",
    },
    "C15": {
        "title": "Before/after/alternate injection is lowered exactly",
        "units": ["V4_inject", "V4b_iter_inject", "V11_emit", "V8_lower"],
        "obligations": V11_EMIT + ["V8_lower.FunctionModifier.init.*", "V8_lower.fn:FunctionModifier::init", "V8_lower.Functions.get_fn_modifier.*", "V8_lower.fn:Functions::get_fn_modifier", "V8_lower.fn:FuncInstrFlag::finish_instr", "V4b_iter_inject.ModuleIterator.*", "V4b_iter_inject.fn:ModuleIterator as *", "V4b_iter_inject.fn:Functions::get_mut"] + ["V4_inject.InstrumentationFlag.*", "V4_inject.fn:InstrumentationFlag::*", "V4_inject.fn:Instruction::add_instr", "V4_inject.LocalFunction.*", "V4_inject.fn:LocalFunction::add_instr", "V4_inject.fn:LocalFunction::clear_instr_at", "V4_inject.fn:Body::clear_instr",
                        "V4_inject.fn:Body::clear_instr", "V4_inject.fn:FunctionModifier as *"],
        "glue": V11_TRUST + ["the rest of Module::encode_internal around the per-instruction loop (which functions are emitted, locals, how instr_len is computed: `instructions.len() - 1` is a precondition of the region) is not under contract",
                 "rule R16: the loop is cut out of encode_internal by a text anchor and wrapped in a declared header; the locals it uses become parameters of the same types"],
        "design_ref": "DESIGN.md §5 C15",
        "level_text": "Accumulation half: for every injection API path the operator is appended to exactly the list of the active mode of exactly the addressed instruction; clearing removes exactly one mode's list. Emission half (the real per-instruction loop of encode_internal, extracted as a region): the emitted body is the concatenation, in order, of before-code, then the replacement if there is one (and the instruction is not the function's final end) or else the instruction itself, then after-code (not at the final end), every operator rewritten through the three id maps.",
    },
    "C17": {
        "title": "Function entry/exit probes fire once per call on every normal path",
        "units": ["V8_lower", "V2_reindex", "V15_probes"],
        "obligations": V8_BASE + ["V8_lower.lower_block_alt_opener_fl.*", "V8_lower.fn:Module::lower_block_alt_opener_with_function_level_code", "V15_probes.take_function_level_code.functions_marked_special_are_lowered_the_others_skipped", "V15_probes.take_function_level_code.entry_and_exit_code_handed_over_as_injected", "V15_probes.take_function_level_code.stored_function_level_code_is_emptied", "V15_probes.fn:Module::take_function_level_code", "V15_probes.fn:Functions::get_kind_mut", "V8_lower.lower_one_instruction.*", "V8_lower.fn:Module::lower_one_instruction", "V8_lower.fn:InstrumentationFlag::has_instr", "V8_lower.resolve_function_entry.*", "V8_lower.fn:resolve_function_entry", "V8_lower.resolve_function_exit.*", "V8_lower.fn:resolve_function_exit",
                                  "V8_lower.exit_wrapper.*", "V8_lower.fn:resolve_function_exit_with_block_wrapper", "V8_lower.prepare_function_exit.*", "V8_lower.fn:Module::prepare_function_exit", "V8_lower.fn:Functions::get_type_id", "V8_lower.fn:Types::results",
                                  "V8_lower.lower_plain_instruction.*", "V8_lower.fn:Module::lower_plain_instruction_with_function_level_code",
                                  "V8_lower.lower_end_with_pending_bodies.*", "V8_lower.fn:Module::lower_end_with_pending_bodies", "V8_lower.flush_*", "V8_lower.fn:Module::flush_*"],
        "glue": LOWER_GLUE + ["the preparation of the entry / exit code before the instruction loop is a region of resolve_special_instrumentation (R16); ModuleTypes::get / add_func_type and Function::get_type_id are assumed there with the clauses V6 / V7 prove"],
        "design_ref": "DESIGN.md §5 C17-C20",
        "level_text": "Placement only: entry code goes in front of instruction 0 and is consumed; a copy of the exit code goes immediately before every return / return_call* / unreachable / throw*, and `end` + exit code before the function's final end (closing the wrapper block opened by the entry code) and is consumed; nothing else changes. Proved for all bodies and indices, on the helpers AND on one iteration of the driver loop (ordinary instruction, `end`, instruction inside a removed construct); the driver visits every local function (F30).",
    },
    "C18": {
        "title": "Block entry probes fire on every entry into the block",
        "units": ["V8_lower", "V2_reindex"],
        "obligations": V8_BASE + ["V8_lower.lower_block_entry_opener.*", "V8_lower.fn:Module::lower_block_entry_opener", "V8_lower.lower_opener_with_several_requests.*", "V8_lower.fn:Module::lower_opener_with_several_requests", "V8_lower.lower_one_instruction.*", "V8_lower.fn:Module::lower_one_instruction", "V8_lower.fn:InstrumentationFlag::has_instr", "V8_lower.resolve_block_entry.*", "V8_lower.fn:resolve_block_entry"],
        "glue": LOWER_GLUE, "design_ref": "DESIGN.md §5 C17-C20",
        "level_text": "Placement only: on block / loop / if / else the probe code is appended to the AFTER list of the opening instruction (= first thing inside the body or arm, re-executed on every loop iteration); on any other instruction nothing changes; one iteration of the driver loop is proved to do exactly that for an opener carrying a block-entry request, alone or together with block-exit / semantic-after requests.",
    },
    "C19": {
        "title": "Block exit probes fire when the block or arm falls through",
        "units": ["V8_lower", "V2_reindex"],
        "obligations": V8_BASE + ["V8_lower.flush_*", "V8_lower.fn:Module::flush_*", "V8_lower.lower_block_exit_opener.*", "V8_lower.fn:Module::lower_block_exit_opener", "V8_lower.lower_opener_with_several_requests.*", "V8_lower.fn:Module::lower_opener_with_several_requests", "V8_lower.lower_end_with_pending_bodies.*", "V8_lower.fn:Module::lower_end_with_pending_bodies", "V8_lower.lower_else_with_pending_bodies.*", "V8_lower.fn:Module::lower_else_with_pending_bodies", "V8_lower.lower_else_block_alt.*", "V8_lower.fn:Module::lower_else_block_alt", "V8_lower.resolve_bodies.*", "V8_lower.fn:resolve_bodies", "V8_lower.plan_resolution_block_exit.*", "V8_lower.fn:plan_resolution_block_exit",
                                  "V8_lower.fn:save_not_flagged_body_to_resolve", "V8_lower.fn:save_not_flagged_body_to_resolve_inner",
                                  "V8_lower.registered_is_flushed.emitted_code_is_determined_by_the_plan_view", "V8_lower.registered_is_flushed.unflagged_*",
                                  "V8_lower.fn:lemma_resolved_code_is_a_function_of_the_plan_view", "V8_lower.fn:lemma_unflagged_body_registered_is_flushed", "V8_lower.fn:lemma_other_entries_keep_their_code"],
        "glue": LOWER_GLUE + ["ASSUMED: Vec<Operator>::to_owned yields an equal list; HashMap::from([(k, v)]) is the one-entry table; #[derive(Hash, Eq)] of InstrumentationMode obeys the HashMap key model (the save_not_flagged_body_to_resolve{,_inner} helpers themselves are proved with their real bodies, rule R27)"],
        "design_ref": "DESIGN.md §5 C17-C20",
        "level_text": "Placement only. Registration: the probe of an `if` is due at its else-or-end, that of a block / loop / else before the `end` of that very construct (innermost open one), unflagged, nothing for other instructions. Emission: the code saved for a construct's `else`/`end` is emitted into the requested list of that instruction as (flag-guarded chain; unconditional bodies), nothing else changes, whatever the iteration order of the table. Driver (one iteration): the opener registers, the `else` flushes what is saved for the else-or-end of its `if` (also when the else carries a block-alternate), the `end` flushes both tables and takes the entries off.",
    },
    "C20": {
        "title": "Semantic-after probes fire exactly once after the instruction",
        "units": ["V8_lower", "V2_reindex"],
        "obligations": V8_BASE + ["V8_lower.flush_*", "V8_lower.fn:Module::flush_*", "V8_lower.lower_semantic_after_branch.*", "V8_lower.fn:Module::lower_semantic_after_branch", "V8_lower.lower_semantic_after_br_table.*", "V8_lower.fn:Module::lower_semantic_after_br_table", "V8_lower.lower_opener_with_several_requests.*", "V8_lower.fn:Module::lower_opener_with_several_requests", "V8_lower.lower_end_with_pending_bodies.*", "V8_lower.fn:Module::lower_end_with_pending_bodies", "V8_lower.create_bool_flag.*", "V8_lower.fn:create_bool_flag", "V8_lower.fn:add_local", "V8_lower.resolve_bodies.*", "V8_lower.fn:resolve_bodies", "V8_lower.plan_resolution_semantic_after.*", "V8_lower.fn:plan_resolution_semantic_after",
                                   "V8_lower.kf.resolve_bodies.*", "V8_lower.lemma.emitted_chain_is_well_nested_up_to_two_flagged_bodies", "V8_lower.fn:lemma_chain_agrees_up_to_two",
                                   "V8_lower.fn:save_not_flagged_body_to_resolve", "V8_lower.fn:save_not_flagged_body_to_resolve_inner", "V8_lower.fn:save_flagged_body_to_resolve",
                                   "V8_lower.registered_is_flushed.*", "V8_lower.fn:lemma_resolved_code_is_a_function_of_the_plan_view", "V8_lower.fn:lemma_unflagged_body_registered_is_flushed",
                                   "V8_lower.fn:lemma_flagged_body_registered_is_flushed", "V8_lower.fn:lemma_other_entries_keep_their_code"],
        "glue": LOWER_GLUE + ["ASSUMED: Vec<Operator>::to_owned yields an equal list; HashMap::from([(k, v)]) is the one-entry table; #[derive(Hash, Eq)] of InstrumentationMode obeys the HashMap key model (the save_{not_,}flagged_body_to_resolve helpers themselves are proved with their real bodies, rule R27; the br_table target loop `targets.targets().for_each(..)` is verified in place as the for loop it stands for, rules R28 + R18)",
                              "TRUSTED model of wasmparser::BrTable: targets() denotes a finite sequence of items (a depth or a read error each) and iterating it yields exactly that sequence; the targets that count are the depths among them, in order (the code skips errors); default() is br_default(t)"],
        "design_ref": "DESIGN.md §5 C17-C20",
        "level_text": "Placement only. Registration: on block / loop / if / else the probe is due after the `end` of that very construct; on EVERY br / br_if / br_on_* (whatever its target, incl. the function body) a fresh i32 flag is set to 1 before the branch and reset to 0 after it, with the probe body right after the reset for conditional branches (fall-through), and the probe is due, guarded by that flag, at the `end` of block (top - depth); br_table: the same for every target and the default; nothing for other instructions. Emission: at the target's end each saved body is guarded by its flag in an if / else-if chain. The driver that pairs the two is glue.",
    },
    "C21": {
        "title": "Block alternate replaces exactly the selected construct",
        "units": ["V8_lower", "V2_reindex"],
        "obligations": V8_BASE + ["V8_lower.lower_block_alt_opener_fl.*", "V8_lower.fn:Module::lower_block_alt_opener_with_function_level_code", "V8_lower.lower_block_alt_opener.*", "V8_lower.fn:Module::lower_block_alt_opener", "V8_lower.lower_else_block_alt.*", "V8_lower.fn:Module::lower_else_block_alt", "V8_lower.flush_at_else.*", "V8_lower.fn:Module::flush_at_else", "V8_lower.lower_closing_end.*", "V8_lower.fn:Module::lower_closing_end_of_removed_construct", "V8_lower.lower_one_instruction.*", "V8_lower.fn:Module::lower_one_instruction", "V8_lower.fn:InstrumentationFlag::has_instr", "V8_lower.plan_resolution_block_alt.*", "V8_lower.fn:plan_resolution_block_alt", "V8_lower.fn:Body::clear_instr"],
        "glue": LOWER_GLUE, "design_ref": "DESIGN.md §5 C21",
        "level_text": "Placement only: on block / loop / if / else the replacement becomes the ALTERNATE of the opening instruction (an empty replacement becomes an empty alternate = removal), the construct's end is kept only for `else`; other instructions untouched. Driver (one iteration): the opener / else starts the removal, every instruction inside is removed with nothing else planned on it (no exit code, no probe), the nesting is tracked, the matching `end` ends it; F16, F23 fixed.",
    },
    "C22": {
        "title": "Special-mode injections are never silently lost",
        "units": ["V4_inject", "V4b_iter_inject", "V11_emit", "V8_lower", "V15_probes"],
        "obligations": V11_EMIT + ["V8_lower.lower_block_alt_opener_fl.*", "V8_lower.fn:Module::lower_block_alt_opener_with_function_level_code", "V8_lower.lower_plain_instruction.*", "V8_lower.fn:Module::lower_plain_instruction_with_function_level_code", "V8_lower.lower_end_with_pending_bodies.function_level_code_spent_where_placed", "V8_lower.fn:Module::lower_end_with_pending_bodies", "V8_lower.lower_one_instruction.no_entry_or_exit_code_for_a_removed_instruction", "V8_lower.fn:Module::lower_one_instruction", "V15_probes.take_function_level_code.functions_marked_special_are_lowered_the_others_skipped", "V15_probes.take_function_level_code.entry_and_exit_code_handed_over_as_injected", "V15_probes.take_function_level_code.stored_function_level_code_is_emptied", "V15_probes.fn:Module::take_function_level_code", "V15_probes.fn:Functions::get_kind_mut", "V8_lower.prepare_function_exit.*", "V8_lower.fn:Module::prepare_function_exit", "V8_lower.fn:Functions::get_type_id", "V8_lower.fn:Types::results", "V4b_iter_inject.ModuleIterator.*", "V4b_iter_inject.fn:ModuleIterator as *", "V4b_iter_inject.ComponentIterator.*", "V4b_iter_inject.fn:ComponentIterator as *", "V4b_iter_inject.fn:Functions::get_mut"] + ["V4_inject.InstrumentationFlag.add_instr.*", "V4_inject.fn:InstrumentationFlag::add_instr", "V4_inject.is_block_style_op.*", "V4_inject.is_branching_op.*",
                        "V4_inject.fn:InstrumentationFlag::is_block_style_op", "V4_inject.fn:InstrumentationFlag::is_branching_op",
                        "V4_inject.FuncInstrFlag.*", "V4_inject.fn:FuncInstrFlag::add_instr", "V4_inject.fn:Instruction::add_instr",
                        "V4_inject.LocalFunction.*", "V4_inject.fn:LocalFunction::add_instr",
                        "V4_inject.FunctionModifier.*", "V4_inject.fn:FunctionModifier as *"],
        "glue": ["the iterators' append_tag_at / get_injected_val / add_local forwarders are under contract (unit V4b), as are inject, inject_at, add_instr_at, empty_block_alt_at, empty_alternate_at and clear_instr_at of both iterators",
                 "that has_special_instr == true suffices for resolution is the first `if` of Module::resolve_special_instrumentation (driver: not under contract)"],
        "design_ref": "DESIGN.md §5 C22",
        "level_text": "Every injection entry point under contract either requires the mode to be applicable to the instruction (the code panics otherwise = rejected at the call) or leaves has_special_instr == old || is_special(mode); proved for all instructions, modes and indices.",
    },
    "C24": {
        "title": "Opcode helpers emit exactly the named instruction",
        "units": ["V9_opcode", "V9b_conv"],
        "kani": ["k4_ieee32_from_float_bits", "k4_ieee64_from_float_bits", "k1_valtype_roundtrip"],
        "obligations": ["K:k4_ieee*", "K:k1_valtype_roundtrip", "V9_opcode.Opcode.*", "V9_opcode.MacroOpcode.*", "V9_opcode.fn:Opcode::*", "V9_opcode.fn:MacroOpcode::*",
                        "V9b_conv.*.into_wasmparser.*", "V9b_conv.fn:* as From::from"],
        "glue": ["which list `inject` appends to is the receiver's business (FunctionBuilder / iterators: unit V4)",
                 "DataType -> ValType inside a block type and f32/f64 -> Ieee32/Ieee64 are abstract in the Verus unit (uninterpreted valtype_of / ieee32_of / ieee64_of); their exactness is decided by the Kani harnesses k1_valtype_roundtrip / k4_ieee*_from_float_bits on the real functions"],
        "design_ref": "DESIGN.md §4 K2 (moved to Verus: V9), §5 C24",
        "level_text": "Each of the 200 helpers is proved, for all immediates, to append exactly one operator - the variant wasmparser's own naming assigns to the helper's name - with every immediate passed through unchanged (u32_const/u64_const: the two's-complement reinterpretation `as`).",
    },
    "C25": {
        "title": "Iterators visit every instruction exactly once in order",
        "units": ["V5_iter", "V4b_iter_inject"],
        "obligations": ["V5_iter.FuncSubIterator.*", "V5_iter.fn:FuncSubIterator::*", "V5_iter.ModuleSubIterator.*", "V5_iter.fn:ModuleSubIterator::*",
                        "V5_iter.handle_skips.*", "V5_iter.fn:lemma_next_live", "V5_iter.fn:next_live",
                        "V4b_iter_inject.get_func_metadata.*", "V4b_iter_inject.fn:Module::get_func_metadata", "V4b_iter_inject.ModuleIterator.new.*", "V4b_iter_inject.fn:ModuleIterator::new",
                        "V4b_iter_inject.ModuleIterator.curr_op.*", "V4b_iter_inject.ModuleIterator.next.*", "V4b_iter_inject.fn:ModuleIterator as Iterator::*", "V4b_iter_inject.fn:lemma_metadata_members", "V4b_iter_inject.fn:Functions::get"],
        "glue": ["ModuleIterator::{new,next,curr_loc,curr_op,reset} and Module::get_func_metadata are under contract in V4b against the sub-iterator contracts that V5 proves (assumed there in a weaker form); rule R20 replaces the call of the forwarding method Functions::iter (return type `impl Iterator`) by the trait call it forwards to",
                 "that the module and the iterator stay consistent while the iterator is used (injections do not change instruction counts) is the precondition `consistent()` of every call: established by `new`, re-established by `next` / `reset`, not threaded through the injection methods",
                 "profile: every listed function has at least one instruction (a parsed body ends with `end`)"],
        "design_ref": "DESIGN.md §4 V5, §5 C25",
        "level_text": "Start state, successor step (same function / first instruction of the next unskipped function / exhausted) and reported location + end flag of the sub-iterators are proved for all metadata and skip lists, including empty and all-skipped; 'exactly once, in order' is the induction over these step contracts.",
    },
    "C26": {
        "title": "Component iteration and injection match module-level behaviour",
        "units": ["V5_iter", "V4b_iter_inject"],
        "obligations": ["V4b_iter_inject.InstrumentationFlag.get_instr.*", "V4b_iter_inject.fn:InstrumentationFlag::get_instr", "V4b_iter_inject.ComponentIterator.*", "V4b_iter_inject.fn:ComponentIterator as *", "V4b_iter_inject.ModuleIterator.*", "V4b_iter_inject.fn:ModuleIterator as *",
                        "V5_iter.ComponentSubIterator.*", "V5_iter.fn:ComponentSubIterator::*", "V5_iter.ModuleSubIterator.*", "V5_iter.fn:ModuleSubIterator::*",
                        "V5_iter.handle_skips.*", "V5_iter.fn:next_module_with_work", "V5_iter.fn:lemma_next_live",
                        "V4b_iter_inject.fn:ComponentIterator::new", "V4b_iter_inject.get_func_metadata.*", "V4b_iter_inject.fn:Module::get_func_metadata",
                        "V4b_iter_inject.fn:lemma_metadata_members", "V4b_iter_inject.fn:Functions::get"],
        "glue": ["of the ComponentIterator injection methods, inject / inject_at / set_instrument_mode_at / add_instr_at / empty_block_alt_at / empty_alternate_at / clear_instr_at / append_tag_at / get_injected_val are under contract (same effect predicates as the ModuleIterator ones - `lf_added`, and for set_instrument_mode_at / inject_at the same clause-by-clause frame - on the addressed function of the addressed module; the other functions of that module, the other modules and the cursor untouched; `lf_cleared` - the contract of LocalFunction::clear_instr_at, V4 - for clear_instr_at, `lf_tag_appended` - the contract of LocalFunction::append_instr_tag_at, V20 - for append_tag_at); add_local: `added_one_local` - the contract of Functions::add_local, V1 - on the function at the cursor",
                 "ComponentIterator::{new,next,curr_loc,curr_op,reset} are under contract in V4b against the ComponentSubIterator contracts that V5 proves (assumed there in a weaker form: `settled()` = past the last module or on an instruction of module curr_mod, each clause implied by the V5 postcondition of the same function); `new` requires comp.num_modules == comp.modules.len() and parsed modules (ids are positions, recorded sizes are lengths, bodies non-empty) - the invariant parse_comp establishes, not proved here; print_metadata (stdout only) is a stub",
                 "that injections keep `consistent()` (they do not change instruction counts) is not threaded through the injection methods"],
        "design_ref": "DESIGN.md §4 V5, §5 C26",
        "level_text": "The component iterator's start state and its state after reset() are proved to be the start state of the first module that has an unskipped function, under that module's own skip list (F29); the component-level step is proved to be the module-level step inside a module and, at a module's end, the start state of the next module that has an unskipped function; what curr_op / next hand out is proved to be the instruction at the reported location of the reported module, with the metadata of every module proved to list exactly its local functions; the main injection entry points of both iterators are proved to have the same effect (the same predicate over LocalFunction::add_instr) on the function the iterator points at.",
    },
    "C14": {
        "title": "Added locals get fresh indices of the requested type",
        "units": ["V1_locals", "V11_emit", "V4b_iter_inject"],
        "obligations": ["V1_locals.*", "V4b_iter_inject.ModuleIterator.add_local.*", "V4b_iter_inject.ComponentIterator.add_local.*",
                        "V4b_iter_inject.fn:ModuleIterator as AddLocal::add_local", "V4b_iter_inject.fn:ComponentIterator as AddLocal::add_local", "V4b_iter_inject.fn:AddLocal::add_local"],
        "kani": [],
        "obligations_extra": V11_CODE,
        "glue": V11_TRUST + ["emission of the locals vector in Module::encode_internal (one loop over body.locals)",
                 "the ModuleIterator / ComponentIterator add_local forwarders are under contract in V4b (the local is added to the function the cursor is in - of the module the cursor is in - with the index params + locals so far and the requested type; every other function / module and the cursor untouched; the function keeps id, type, recorded size, function-level code, deleted flag; a consistent ModuleIterator / ComponentIterator stays consistent with its module / component) against the contract of Functions::add_local, which V1 proves and V4b assumes with the same text; precondition: the iterator points at an instruction of a local function whose run-length local list agrees with its num_locals"],
        "design_ref": "DESIGN.md §4 V1, §5 C14",
    },
    "C27": {
        "title": "Component round trip preserves structure at any nesting depth",
        "units": ["V10_parse", "V16_comp_emit"],
        "obligations": ["V16_comp_emit.emit_nested_components.*", "V16_comp_emit.fn:Component::emit_nested_components", "V16_comp_emit.emit_core_modules.*", "V16_comp_emit.fn:Component::emit_core_modules",
                        "V16_comp_emit.emit_custom_sections.*", "V16_comp_emit.fn:Component::emit_custom_sections",
                        "V10_parse.track_nesting.*", "V10_parse.fn:Component::track_nesting", "V10_parse.parse_module_section.*", "V10_parse.fn:parse_module_section",
                        "V10_parse.parse_component_section.*", "V10_parse.fn:Component::parse_component_section", "V10_parse.add_to_sections.*", "V10_parse.fn:Component::add_to_sections",
                        "V10_parse.parse_comp_*_section.*", "V10_parse.fn:Component::parse_comp_*_section", "V10_parse.fn:lemma_first_err"],
        "glue": ["ENCODE half (V16): three arms of Component::encode_comp are under contract, each a region of it - nested components, core modules, custom sections: for an entry (num, kind) of the run-length record exactly num sections are written, one per stored item, in store order, from where the previous entry of that kind stopped (nested components / core modules: each an encoding made by the recursive call resp. Module::encode_internal on THAT item, assumed by contract; custom sections: own name and bytes), and the cursor of that kind moves on by num; the precondition 'the record never promises more items than are stored' is what the encoder asserts at run time. The outer loop that dispatches on the kind, the ten arms that convert section CONTENT (types, imports, exports, instances, aliases, canonical functions, start), and the name section are glue",
                 "PARSE half: the nesting bookkeeping, the core-module / nested-component arms and the eight plain section arms of Component::parse_comp (imports, exports, core instances, core types, component types, component instances, aliases, canonical functions: the entries the section reader yields are stored in order behind those already there and the run-length record of the section order grows by exactly that many items of that kind; the collect chains are written as loops by rule R24, the readers are a TRUSTED sequence model). The start-section and custom / name-section arms and the whole of Component::encode_comp (section replay, 650 lines, conversions of external component-model types) are not under contract",
                 "that the payload stream of wasmparser's parse_all contains the payloads of nested modules / components inline, each closed by its own End, is a TRUSTED property of the reader",
                 "rule R16: the regions are cut out of parse_comp by text anchors; a `continue` in the head region is written as a `return` of the synthetic function"],
        "design_ref": "DESIGN.md §5 C27",
        "level_text": "Partial (parse side, and the structural arms of the encode side: nested components, core modules and custom sections are written one section per stored item, in store order, as many as the section-order record says): every plain section of a component is stored entry by entry, in order, and recorded in the run-length record of the section order; inside nested content every opener of a module / component deepens the tracked nesting by one and every End ends one level, at any depth, and such payloads are left to the recursive call; an own child deepens it by exactly one and is parsed from exactly its own byte range (or reported if that range leaves the input); the run-length record of the section order denotes the items in stream order. After fix F24 (content nested three levels deep was parsed twice).",
    },
    "C23": {
        "title": "Side-effect report lists exactly the tagged additions and probes",
        "units": ["V12_sections", "V7_types", "V11_emit", "V15_probes", "V20_tags"],
        "obligations": ["V12_sections.encode_exports.one_record_per_live_tagged_export", "V12_sections.encode_exports.no_other_records", "V12_sections.fn:Module::encode_exports",
                        "V12_sections.encode_imports.one_record_per_live_tagged_import", "V12_sections.fn:Module::encode_imports",
                        "V12_sections.fn:Export as TagUtils::get_tag", "V12_sections.fn:Import as TagUtils::get_tag",
                        "V12_sections.encode_memories.one_record_per_tagged_local_memory", "V12_sections.fn:Module::encode_memories", "V12_sections.fn:Memory as TagUtils::get_tag",
                        "V12_sections.encode_tables.one_record_per_tagged_table", "V12_sections.encode_tables.no_other_records", "V12_sections.fn:Module::encode_tables", "V12_sections.fn:Table as TagUtils::get_tag",
                        "V12_sections.encode_elements.one_record_per_tagged_segment", "V12_sections.encode_elements.no_other_records", "V12_sections.fn:Module::encode_elements", "V12_sections.fn:Element as TagUtils::get_tag",
                        "V12_sections.encode_type_section.one_record_per_tagged_type", "V12_sections.encode_type_section.no_other_records", "V12_sections.fn:Module::encode_type_section", "V12_sections.fn:Types as TagUtils::get_tag",
                        "V12_sections.encode_globals.one_record_per_live_tagged_local_global", "V12_sections.encode_globals.no_other_records", "V12_sections.fn:Module::encode_globals", "V12_sections.fn:Global as TagUtils::get_tag", "V12_sections.fn:Global as GetID::*",
                        "V12_sections.encode_data_segments.one_record_per_tagged_segment_in_the_encoded_index_space", "V12_sections.encode_data_segments.no_other_records", "V12_sections.fn:Module::encode_data_segments", "V12_sections.fn:DataSegment as TagUtils::get_tag",
                        "V11_emit.encode_function_section.one_record_per_live_tagged_local_function", "V11_emit.encode_function_section.no_other_records", "V11_emit.fn:Module::encode_function_section",
                        "V11_emit.fn:LocalFunction as TagUtils::get_tag", "V11_emit.locals_as_vec.*", "V11_emit.fn:Body::locals_as_vec",
                        # the stored types (and with them their tags) are not touched by later additions: a type gets a record iff it was added with a tag
                        "V7_types.add_type.existing_types_unchanged", "V7_types.add_type.new_type_gets_next_id_and_own_group", "V7_types.fn:ModuleTypes::add_type",
                        # the collection step itself (rule R27): the record is appended to the list of its kind, every other list is as it was
                        "V12_sections.add_injection.*", "V12_sections.fn:add_injection", "V11_emit.add_injection.*", "V11_emit.fn:add_injection",
                        # probe records (V15; rule R30 for the record-building closures; V11 for the code section)
                        "V15_probes.add_inj_at.*", "V15_probes.add_injections.*", "V15_probes.fn:InstrumentationFlag::add_inj_at", "V15_probes.fn:InstrumentationFlag::add_injections",
                        "V15_probes.add_inj_fn.*", "V15_probes.FuncInstrFlag.add_injections.*", "V15_probes.fn:FuncInstrFlag::add_inj_fn", "V15_probes.fn:FuncInstrFlag::add_injections",
                        "V15_probes.add_corrected_special_injections.*", "V15_probes.fn:LocalFunction::add_corrected_special_injections",
                        "V15_probes.add_opcode_injections.*", "V15_probes.fn:LocalFunction::add_opcode_injections", "V15_probes.add_injection.*", "V15_probes.fn:add_injection",
                        "V15_probes.take_function_level_code.*", "V15_probes.fn:Module::take_function_level_code", "V15_probes.fn:Functions::get_kind_mut",
                        "V11_emit.update_ids_and_encode.stored_code_is_remapped_in_place", "V11_emit.fn:update_ids_and_encode",
                        "V11_emit.encode_function_body.stored_probe_lists_are_remapped_as_emitted", "V11_emit.fn:encode_function_body", "V11_emit.fn:lemma_body_records_after",
                        "V11_emit.encode_code_section.probe_records_of_every_live_local_function_with_code_as_emitted", "V11_emit.encode_code_section.no_other_records", "V11_emit.fn:Module::encode_code_section",
                        # how a tag reaches the list it is meant for (V20)
                        "V20_tags.append_to_tag.*", "V20_tags.fn:HasInjectTag::append_to_tag", "V20_tags.fn:TagUtils::get_or_create_tag", "V20_tags.fn:TagUtils::get_tag",
                        "V20_tags.fn:* as TagUtils::*",
                        "V20_tags.append_instr_tag_at.*", "V20_tags.fn:LocalFunction::append_instr_tag_at"],
        "glue": ["tags (V20): `append_to_tag` (the default method) and the get_or_create_tag / get_tag of InjectedInstrs, InstrumentationFlag and FuncInstrFlag are under contract - the bytes are appended to the tag of the list the current mode addresses, an absent tag counts as empty, nothing else changes -, as is LocalFunction::append_instr_tag_at; `Option::get_or_insert_default` is a named wrapper (ASSUMED; derived Default of Tag / InjectedInstrs = empty); the iterators' append_tag_at forwarders and the tag setters of module-level items (get_or_create_tag of Export, Import, Global, ...) are read, not proved", "ASSUMED: #[derive(Hash, Eq)] of InjectType obeys the HashMap key model; #[derive(Clone)] of Injection, Tag, Types and InitExpr, String::clone, <[u8]>::to_vec and Tag::to_owned yield equal values; DataType::from(ValType) is an uninterpreted dt_of (its exactness: Kani K1); str::to_string is modelled by an uninterpreted str_owned",
                 "the Type, Import, Export, Memory, Table, Element, Global, Data, Func and Probe records are decided (Global, Data, Func and Probe records through a view, because they hold Vecs: id / type / tag / initialiser resp. memory / offset / bytes / tag resp. function / position / mode / code / tag, with the indices inside in the index space of the encoded module). Func records are made when the function section is written, i.e. with the body as stored BEFORE the code section rewrites it (the caller's index space); Local records are never produced by the library. Probe records: a record is made for EVERY non-empty probe list, tagged or not (an untagged list gets the empty tag) - the property speaks of probes that carry a tag, for which this gives exactly one record with that tag; after- / replacement code placed on a function's final `end` is never emitted and (after fix F32) gets no record. That the function-level records are pulled exactly once per lowered function and the location records once per live local function is proved for the two regions (take_function_level_code of the lowering driver, encode_code_section); that encode_internal runs the lowering before the code section is glue",
                 "that items of the parsed module carry no tag (so get no record) is a property of parse_internal (it builds every item with tag None): read, not proved"],
        "design_ref": "DESIGN.md §5 C23",
        "level_text": "Partial (eleven of twelve record kinds - Local records are never produced -; Func records: id, name, signature, flat locals, tag, body; Global records: id, type, tag and the initialiser as emitted; data records: bytes, tag and - active ones - memory and offset as emitted, after fix F31; probe records: function, position, mode, code as emitted, tag, after fix F32): when side effects are pulled, the report gains exactly one Type record per tagged type of the module (carrying that type; V7: adding a type never changes a stored type or its tag), exactly one Export record per live tagged export, one Import record per live tagged import, one Memory record per tagged local memory, one Table record per tagged table and one Element record per tagged element segment - with the item's own name / kind / index resp. module / name / type resp. id / limits and its tag - and no record for untagged or deleted ones; nothing else in the report changes in those three loops. After fix F25.",
    },
}

HOOK_COMMITS = ["6108179", "dd5c5ea", "537dc3a", "193503a", "89c40c7"]

NOT_APPLICABLE = {
    "C16": "behavioural equivalence of original and instrumented module needs a WebAssembly execution semantics and a simulation proof; neither installed deductive verifier has one, and a syntactic contract cannot express it",
}

for _p in PROPS.values():
    if "obligations_extra" in _p:
        _p["obligations"] = list(_p["obligations"]) + _p.pop("obligations_extra")
