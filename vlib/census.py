"""Mechanical census of HashMap iteration sites in /repo/src (C04).

A HashMap is iterated in a per-process random order.  Every function that iterates one must therefore have a
postcondition that pins its result independently of that order; the census lists the sites so that the
evidence can say which are under contract and which sit in unverified glue.
"""
import glob, os, re
from .rustlex import SourceFile

ITER_METHODS = ("iter", "iter_mut", "keys", "values", "values_mut", "drain", "into_iter", "into_keys", "into_values")

def census(repo="/repo"):
    sites = []
    for path in sorted(glob.glob(os.path.join(repo, "src", "**", "*.rs"), recursive=True)):
        rel = os.path.relpath(path, repo)
        if rel.endswith("test.rs") or "instr_tests" in rel: continue
        src = open(path).read()
        # names bound to a HashMap in this file: fields, lets, params
        names = set(re.findall(r"\b(\w+)\s*:\s*&?(?:mut\s+)?(?:std::collections::)?HashMap<", src))
        names |= set(re.findall(r"let\s+(?:mut\s+)?(\w+)(?:\s*:\s*[^=;]+)?\s*=\s*HashMap::", src))
        if not names: continue
        sf = SourceFile(path)
        fns = []
        def walk(items, prefix):
            for it in items:
                if it.kind == "fn":
                    fns.append((it.start, it.end, (prefix + "::" if prefix else "") + it.name))
                elif it.children:
                    h = it.name if it.kind == "trait" else re.sub(r"\s+", " ", it.header or "")
                    walk(it.children, h)
        walk(sf.items, "")
        for n in sorted(names):
            pat = re.compile(r"(?:\b|\.)%s\s*\.\s*(%s)\s*\(|\bin\s+&?(?:mut\s+)?(?:self\s*\.\s*)?%s\b(?!\s*\.)" % (re.escape(n), "|".join(ITER_METHODS), re.escape(n)))
            for m in pat.finditer(src):
                line = src.count("\n", 0, m.start()) + 1
                fn = next((q for (a, b, q) in fns if a <= m.start() < b), "?")
                text = src[src.rfind("\n", 0, m.start()) + 1:src.find("\n", m.start())].strip()
                if text.startswith("//"): continue
                sites.append({"file": rel, "line": line, "function": fn, "map": n, "text": text[:140]})
    return sites

COVERED = {
    "ModuleTypes :: new": "under contract: V7_types.ModuleTypes.new.lookup_map_is_canonical",
}
# (function suffix, name of the iterated variable) -> status
COVERED_SITES = {
    ("resolve_special_instrumentation", "to_resolve"): "under contract: V8_lower.flush_*.emitted_code_is_independent_of_the_iteration_order (three regions, one per site)",
    ("encode_internal", "types"): "not a HashMap: the Vec<TypeID> of a RecGroup (the census matches by variable name); under contract in V12_sections.encode_type_section",
}

def classify(sites):
    out = []
    for s in sites:
        key = None
        for k in COVERED:
            a, b = [x.strip() for x in k.split("::")]
            if a in s["function"] and s["function"].endswith("::" + b): key = k
        s = dict(s)
        site = next((v for (fn, var), v in COVERED_SITES.items() if s["function"].endswith("::" + fn) and s["map"] == var), None)
        if site: s["status"] = site
        elif key: s["status"] = COVERED[key]
        elif "print" in s["function"] or "fmt" in s["function"]: s["status"] = "output only (stdout / Debug), not part of the encoding"
        else: s["status"] = "UNCOVERED: in unverified glue"
        out.append(s)
    return out
