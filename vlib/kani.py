"""Kani back end: loop-free harnesses over fully symbolic finite domains, compiled against /repo's
working tree (the harness module is pulled in by the cfg(all(kani, wirm_verif)) hook in src/lib.rs).

A successful harness is a complete proof over its domain; a failed one yields a concrete counterexample
(concrete playback), which is replayed natively against the real code by /verif/replay."""
import os, re, subprocess, time

VERIF = os.path.dirname(os.path.dirname(os.path.abspath(__file__)))
KANI_TARGET = os.path.join(VERIF, "build", "kani-target")
REPLAY_TARGET = os.path.join(VERIF, "build", "replay-target")
REPLAY_BIN = os.path.join(REPLAY_TARGET, "debug", "wirm-replay")
PREFIX = "verif_kani::"

def _env():
    e = dict(os.environ)
    e["CARGO_NET_OFFLINE"] = "true"
    e["CARGO_TARGET_DIR"] = KANI_TARGET
    e["RUSTFLAGS"] = "--cfg wirm_verif"
    return e

def _run_kani(harnesses, extra=(), timeout=1500, jobs=8):
    cmd = ["cargo", "kani", "--exact", "--output-format", "terse", "-j", str(jobs)]
    for h in harnesses:
        cmd += ["--harness", PREFIX + h]
    cmd += list(extra)
    t0 = time.time()
    try:
        p = subprocess.run(cmd, cwd="/repo", env=_env(), stdout=subprocess.PIPE, stderr=subprocess.STDOUT, text=True, timeout=timeout)
        out = p.stdout; rc = p.returncode
    except subprocess.TimeoutExpired as e:
        out = (e.stdout or "") if isinstance(e.stdout, str) else (e.stdout or b"").decode(errors="replace")
        out += "\nTIMEOUT"; rc = -1
        subprocess.run(["pkill", "-x", "cbmc"]); subprocess.run(["pkill", "-x", "kani-driver"])
    return " ".join(cmd), out, rc, time.time() - t0

def _parse(out):
    """-> {harness: (status, seconds, detail)}"""
    res = {}
    # with -j the blocks are prefixed by "Thread N: "
    cur = {}
    for ln in out.split("\n"):
        m = re.match(r"^(?:Thread (\d+): )?Checking harness (\S+?)\.\.\.", ln)
        if m:
            cur[m.group(1)] = m.group(2); continue
    # robust: split on "Checking harness" is unreliable with threads; use summary lines + per-harness blocks
    blocks = re.split(r"(?m)^(?:Thread \d+: )?Checking harness ", out)
    for b in blocks[1:]:
        name = b.split("...")[0].strip()
        res.setdefault(name, ["unknown", None, ""])
    # results are printed as "VERIFICATION:- X" after the thread's own block; pair them by thread id order
    thread_h = {}
    for ln in out.split("\n"):
        m = re.match(r"^Thread (\d+): Checking harness (\S+?)\.\.\.", ln)
        if m: thread_h[m.group(1)] = m.group(2); continue
        m = re.match(r"^Checking harness (\S+?)\.\.\.", ln)
        if m: thread_h["_"] = m.group(2); continue
    # sequential scan keeping "current harness of the most recent Thread N:" marker
    cur_t = "_"; fail_detail = {}
    for ln in out.split("\n"):
        m = re.match(r"^Thread (\d+): (.*)$", ln)
        if m:
            cur_t = m.group(1); rest = m.group(2)
            m2 = re.match(r"Checking harness (\S+?)\.\.\.", rest)
            if m2: thread_h[cur_t] = m2.group(1)
            continue
        m2 = re.match(r"^Checking harness (\S+?)\.\.\.", ln)
        if m2: cur_t = "_"; thread_h["_"] = m2.group(1); continue
        h = thread_h.get(cur_t)
        if h is None: continue
        if ln.startswith("VERIFICATION:- "):
            res.setdefault(h, ["unknown", None, ""])[0] = "ok" if "SUCCESSFUL" in ln else "failed"
        elif ln.startswith("Verification Time:"):
            res.setdefault(h, ["unknown", None, ""])[1] = float(ln.split(":")[1].strip().rstrip("s"))
        elif ln.startswith("Failed Checks:") or ln.startswith(" File:"):
            res.setdefault(h, ["unknown", None, ""])[2] += ln.strip() + " "
    # summary lines are authoritative
    for m in re.finditer(r"Verification failed for - (\S+)", out):
        res.setdefault(m.group(1), ["unknown", None, ""])[0] = "failed"
    return {k.replace(PREFIX, ""): tuple(v) for k, v in res.items()}

def _playback(h):
    cmd, out, rc, wall = _run_kani([h], extra=["-Z", "concrete-playback", "--concrete-playback=print"], jobs=1, timeout=900)
    vals = []
    m = re.search(r"let concrete_vals: Vec<Vec<u8>> = vec!\[(.*?)\];", out, re.S)
    if not m:
        return None, out[-1500:]
    for v in re.finditer(r"vec!\[([0-9, ]*)\]", m.group(1)):
        vals.append([int(x) for x in v.group(1).split(",") if x.strip()])
    return vals, None

def build_replay():
    e = dict(os.environ); e["CARGO_NET_OFFLINE"] = "true"; e["CARGO_TARGET_DIR"] = REPLAY_TARGET; e["RUSTFLAGS"] = "--cfg wirm_verif"
    p = subprocess.run(["cargo", "build", "--offline", "-q"], cwd=os.path.join(VERIF, "replay"), env=e, stdout=subprocess.PIPE, stderr=subprocess.STDOUT, text=True)
    return p.returncode == 0, p.stdout[-2000:]

def native_replay(h, vals):
    ok, msg = build_replay()
    if not ok:
        return {"status": "replay crate does not build", "output": msg}
    args = [REPLAY_BIN, "kani", h] + [",".join(str(b) for b in v) for v in vals]
    p = subprocess.run(args, stdout=subprocess.PIPE, stderr=subprocess.STDOUT, text=True)
    return {"cmd": " ".join(args), "exit": p.returncode, "output": p.stdout.strip()[-1500:],
            "status": {0: "holds on this input", 1: "violation reproduced on the real code", 2: "input outside the profile"}.get(p.returncode, "replay crashed")}

def run_set(prop, harnesses, tier, open_ids):
    """harnesses: list of harness names (without module prefix)"""
    hs = list(dict.fromkeys(["k0_smoke", "k0_canary_must_fail"] + list(harnesses)))
    cmd, out, rc, wall = _run_kani(hs)
    parsed = _parse(out)
    obligations = {}
    undecided = []
    if "error: could not compile" in out or "Failed to execute cargo" in out:
        undecided.append("kani: the crate does not compile under Kani: " + out[-800:])
    for h in hs:
        st, secs, detail = parsed.get(h, ("unknown", None, ""))
        oid = "K:" + h
        if h == "k0_canary_must_fail":
            obligations[oid] = {"status": "canary_ok" if st == "failed" else "canary_passed", "canary": True, "fn": h}
            continue
        if st == "ok":
            obligations[oid] = {"status": "discharged", "fn": h, "smt_ms": (secs or 0) * 1000, "text": "harness " + h + " (complete over its symbolic domain)"}
        elif st == "failed":
            vals, err = _playback(h)
            ob = {"status": "failed", "fn": h, "text": "harness " + h, "messages": [detail]}
            if vals is not None:
                ob["counterexample"] = {"kani_any_values_in_draw_order": vals}
                ob["native_replay"] = native_replay(h, vals)
                ob["messages"].append(ob["native_replay"].get("output", ""))
            else:
                ob["messages"].append("no concrete playback available: " + (err or ""))
            obligations[oid] = ob
        else:
            obligations[oid] = {"status": "undecided", "fn": h}
            undecided.append("kani: no result for harness %s (timeout or tool failure)" % h)
    info = {"harnesses": hs, "wall_s": round(wall, 1), "bounded": [],
            "note": "every harness is loop-free over a fully symbolic finite domain (no unwinding bound): complete, not bounded"}
    trusted = ["kani: CBMC's bit-precise model of the compiled code; std/wasmparser functions are executed as compiled (not assumed)",
               "kani: V128 is built by transmuting [u8;16] (no public constructor)"]
    return {"info": info, "obligations": obligations, "cmd": cmd, "trusted": trusted, "undecided": undecided}

def replay(rep):
    h = rep["obligation"].split("K:")[-1]
    vals = (rep.get("counterexample") or {}).get("kani_any_values_in_draw_order")
    if vals is None:
        print("no counterexample stored"); return 2
    r = native_replay(h, vals)
    print(r.get("output", ""))
    print("native replay: %s" % r["status"])
    if r.get("exit") == 1:
        print("VIOLATION property=%s replay=%s obligation=%s" % (rep["property"], "<this file>", rep["obligation"]))
        return 1
    return 0 if r.get("exit") == 0 else 2
