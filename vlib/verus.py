"""Run Verus on one generated unit file and classify the result per obligation."""
import glob, json, os, re, subprocess, time
from .rustlex import lex, sig, items_in, match_close

VERIF = os.path.dirname(os.path.dirname(os.path.abspath(__file__)))
DEPS = os.path.join(VERIF, "build", "vdeps", "target", "debug", "deps")

def dep_args():
    def one(pat):
        r = sorted(glob.glob(os.path.join(DEPS, pat)))
        if not r:
            raise RuntimeError("dependency rlib missing (%s): run ./setup.sh" % pat)
        return r[0]
    return ["-L", "dependency=" + DEPS,
            "--extern", "wasmparser=" + one("libwasmparser-*.rlib"),
            "--extern", "wasm_encoder=" + one("libwasm_encoder-*.rlib"),
            "--extern", "log=" + one("liblog-*.rlib")]

class FnInfo:
    def __init__(self, qual, name, lo, hi, mode):
        self.qual = qual; self.name = name; self.lo = lo; self.hi = hi; self.mode = mode
        self.errors = []

def line_of(text, off):
    return text.count("\n", 0, off) + 1

def functions_of(text):
    """all fn items inside the verus!{} block(s) with 1-based line ranges"""
    toks = lex(text); st = sig(toks)
    out = []
    for i, t in enumerate(st):
        if t.kind == "ident" and t.text == "verus" and i + 2 < len(st) and st[i + 1].text == "!" and st[i + 2].text == "{":
            c = match_close(st, i + 2)
            items = items_in(text, st, i + 3, c)
            def walk(its, prefix):
                for it in its:
                    if it.kind == "fn":
                        mode = "exec"
                        head = text[it.start:st[it.kw_i].start]
                        if "proof" in head: mode = "proof"
                        elif "spec" in head: mode = "spec"
                        q = (prefix + "::" if prefix else "") + it.name
                        out.append(FnInfo(q, it.name, line_of(text, it.attr_start), line_of(text, it.end), mode))
                    elif it.kind in ("impl", "trait") and it.children is not None:
                        if it.kind == "impl":
                            h = re.sub(r"^impl\s*(<[^>]*>)?", "", it.header)
                            for _ in range(3):
                                h = re.sub(r"<[^<>]*>", "", h)
                            h = re.sub(r"\s+", " ", h).strip()
                            h = re.sub(r"\bwhere\b.*$", "", h).strip()
                            m = re.match(r"^(.+?) for (.+)$", h)
                            def short(x): return x.replace(" ", "").split("::")[-1]
                            p = ("%s as %s" % (short(m.group(2)), short(m.group(1)))) if m else short(h)
                        else:
                            p = it.name
                        walk(it.children, p)
            walk(items, "")
    return out

class UnitResult:
    pass

def run_unit(unit, gen, outdir, rlimit=None, use_deps=True, extra=()):
    """gen: extract.Generated.  Returns UnitResult."""
    os.makedirs(outdir, exist_ok=True)
    path = os.path.join(outdir, unit + ".rs")
    with open(path, "w") as f:
        f.write(gen.text)
    cmd = ["verus", path, "--output-json", "--time", "--error-format=json", "--multiple-errors", "8"]
    if rlimit: cmd += ["--rlimit", str(rlimit)]
    if use_deps: cmd += dep_args()
    cmd += list(extra)
    t0 = time.time()
    p = subprocess.run(cmd, stdout=subprocess.PIPE, stderr=subprocess.PIPE, text=True, cwd=outdir)
    wall = time.time() - t0
    r = UnitResult()
    r.unit = unit; r.cmd = " ".join(cmd); r.wall_s = wall; r.path = path
    r.stdout = p.stdout; r.stderr = p.stderr; r.returncode = p.returncode
    r.fns = functions_of(gen.text)
    r.diags = []
    r.tool_error = None
    for ln in p.stderr.split("\n"):
        ln = ln.strip()
        if not ln.startswith("{"): continue
        try:
            d = json.loads(ln)
        except Exception:
            continue
        if d.get("$message_type") != "diagnostic": continue
        if d.get("level") != "error": continue
        if d.get("message", "").startswith("aborting due to"): continue
        r.diags.append(d)
    try:
        js = json.loads(p.stdout[p.stdout.index("{"):])
    except Exception:
        js = None
    r.json = js
    r.breakdown = []
    r.smt_ms = 0
    r.verified = 0; r.errors = 0
    if js is None:
        r.tool_error = "no JSON from verus (exit %d): %s" % (p.returncode, p.stderr[-2000:])
        return r
    vr = js.get("verification-results", {})
    r.verified = vr.get("verified", 0); r.errors = vr.get("errors", 0)
    if vr.get("encountered-vir-error") or (vr.get("encountered-error") and not r.errors):
        msgs = "; ".join(d.get("message", "") for d in r.diags[:5])
        r.tool_error = "verus front-end error: " + (msgs or p.stderr[-1500:])
    try:
        for m in js["times-ms"]["smt"]["smt-run-module-times"]:
            for fb in m.get("function-breakdown", []):
                r.breakdown.append(fb)
        r.smt_ms = js["times-ms"]["smt"]["total"]
    except Exception:
        pass
    # attribute diagnostics to functions / labels
    r.failed_labels = {}   # label -> [messages]
    r.failed_fns = {}      # qual -> [messages]
    r.undecided = []       # (qual, message)  rlimit etc.
    for d in r.diags:
        msg = d.get("message", "")
        lines = set()
        prim = set()
        spans = []
        for sp in d.get("spans", []):
            prim_flag = sp.get("is_primary")
            # follow macro expansions (panic!, assert!, matches! ...) back to the generated file
            guard = 0
            while sp is not None and not sp.get("file_name", "").endswith(unit + ".rs") and guard < 10:
                sp = (sp.get("expansion") or {}).get("span"); guard += 1
            if sp is None or not sp.get("file_name", "").endswith(unit + ".rs"): continue
            sp = dict(sp); sp["is_primary"] = prim_flag
            spans.append(sp)
        for sp in spans:
            for l in range(sp["line_start"], sp["line_end"] + 1):
                lines.add(l)
                if sp.get("is_primary"): prim.add(l)
        rendered = d.get("rendered") or msg
        # which function does it belong to: a span that lies inside a fn range
        owner = None
        for f in r.fns:
            if any(f.lo <= l <= f.hi for l in (prim or lines)):
                if owner is None or (f.hi - f.lo) < (owner.hi - owner.lo):
                    owner = f
        if owner is None:
            for f in r.fns:
                if any(f.lo <= l <= f.hi for l in lines):
                    owner = f; break
        if re.search(r"rlimit|Resource limit|timed out|timeout", msg, re.I):
            r.undecided.append((owner.qual if owner else "?", msg)); continue
        labs = [gen.labels[l] for l in sorted(lines) if l in gen.labels]
        # only label lines that are the *primary* or narrow spans count; wide spans (whole body) do not
        narrow = set()
        for sp in spans:
            if sp["line_end"] - sp["line_start"] <= 3:
                for l in range(sp["line_start"], sp["line_end"] + 1): narrow.add(l)
        labs = [gen.labels[l] for l in sorted(narrow) if l in gen.labels and owner is not None and owner.lo <= l <= owner.hi]
        if owner is None:
            r.tool_error = (r.tool_error or "") + " | unattributed error: " + msg
            continue
        owner.errors.append(msg)
        r.failed_fns.setdefault(owner.qual, []).append(rendered)
        for lb in labs:
            r.failed_labels.setdefault(lb, []).append(rendered)
    return r
